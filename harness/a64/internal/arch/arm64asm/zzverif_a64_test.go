//go:build go1.18

package arm64asm

import (
	"bufio"
	"encoding/binary"
	"encoding/json"
	"fmt"
	"math/bits"
	"math/rand"
	"os"
	"runtime"
	"strconv"
	"sync"
	"testing"
)

func avEnv(k string, d int) int {
	if v, err := strconv.Atoi(os.Getenv(k)); err == nil {
		return v
	}
	return d
}

type a64Rec struct {
	Ev    string `json:"ev"`
	B     [4]int `json:"b"`
	Err   bool   `json:"err"`
	Op    string `json:"op"`
	Has   bool   `json:"has"`  // a PC-relative argument is present
	Disp  int    `json:"disp"` // its value (ADRP: in pages of 4096)
	Panic string `json:"panic"`
	// Changed: the same word decoded again later (other words decoded in between, other order) gave another answer
	Changed bool `json:"changed"`
}

func decodeWord(word uint32) (r a64Rec) {
	var b [4]byte
	binary.LittleEndian.PutUint32(b[:], word)
	r.Ev = "word"
	r.B = [4]int{int(b[0]), int(b[1]), int(b[2]), int(b[3])}
	defer func() {
		if e := recover(); e != nil {
			r.Panic = fmt.Sprint(e)
			if len(r.Panic) > 100 {
				r.Panic = r.Panic[:100]
			}
		}
	}()
	inst, err := Decode(b[:])
	if err != nil {
		r.Err = true
		return
	}
	r.Op = inst.Op.String()
	_ = inst.String()
	for _, a := range inst.Args {
		if p, ok := a.(PCRel); ok {
			r.Has = true
			d := int64(p)
			if r.Op == "ADRP" {
				d >>= 12
			}
			r.Disp = int(d)
			break
		}
	}
	return
}

// TestVerifA64Sweep: (1) totality over the word space (every VERIF_STRIDE-th word, 1 = all 2^32): Decode and
// String() must not panic; one summary record per 2^24-word chunk. (2) a structured sample of the branch / address
// classes with full records for the format model.
func TestVerifA64Sweep(t *testing.T) {
	out := os.Getenv("VERIF_OUT")
	if out == "" {
		t.Skip()
	}
	of, _ := os.Create(out)
	defer of.Close()
	bw := bufio.NewWriterSize(of, 1<<20)
	defer bw.Flush()
	enc := json.NewEncoder(bw)
	stride := uint64(avEnv("VERIF_STRIDE", 61))
	phase := uint64(avEnv("VERIF_SEED", 1)) % stride
	type sum struct{ words, insts, errs, panics int }
	const chunks = 256
	sums := make([]sum, chunks)
	var firstPanic [chunks]uint32
	var wg sync.WaitGroup
	sem := make(chan struct{}, runtime.NumCPU())
	for c := 0; c < chunks; c++ {
		wg.Add(1)
		sem <- struct{}{}
		go func(c int) {
			defer wg.Done()
			defer func() { <-sem }()
			lo, hi := uint64(c)<<24, uint64(c+1)<<24
			start := lo + (stride-(lo%stride)+phase)%stride
			var b [4]byte
			s := sum{}
			for x := start; x < hi; x += stride {
				binary.LittleEndian.PutUint32(b[:], uint32(x))
				s.words++
				func() {
					defer func() {
						if recover() != nil {
							if s.panics == 0 {
								firstPanic[c] = uint32(x)
							}
							s.panics++
						}
					}()
					inst, err := Decode(b[:])
					if err != nil {
						s.errs++
						return
					}
					_ = inst.String()
					s.insts++
				}()
			}
			sums[c] = s
		}(c)
	}
	wg.Wait()
	for c, s := range sums {
		enc.Encode(map[string]interface{}{"ev": "chunk", "chunk": c, "words": s.words, "insts": s.insts, "errs": s.errs, "panics": s.panics,
			"first": int(firstPanic[c] >> 8)})
	}
	// structured sample
	rng := rand.New(rand.NewSource(int64(avEnv("VERIF_SEED", 1))))
	nrand := avEnv("VERIF_RANDOM", 20000)
	imms := func(width uint) []uint32 {
		var out []uint32
		full := uint32(1)<<width - 1
		out = append(out, 0, full, 1<<(width-1), 1<<(width-1)-1, 1)
		for i := uint(0); i < width; i++ {
			for j := i; j < width; j++ {
				v := uint32(1)<<i | uint32(1)<<j
				out = append(out, v, full&^v)
			}
		}
		return out
	}
	var firstW []uint32
	var firstR []a64Rec
	emit := func(w uint32) {
		r := decodeWord(w)
		enc.Encode(r)
		if len(firstW) < 400000 {
			firstW, firstR = append(firstW, w), append(firstR, r)
		}
	}
	// Decode must be a function of the word alone: at the end every recorded word is decoded again in reverse order,
	// each time right after a word that differs from it only in its top bits / only in its low bits
	defer func() {
		// pairwise over the decoder's own format table: one representative word per format (its value, free bits zero, and a
		// variant with some free bits set); the answer for word b right after a word of ANY other format a must equal the
		// answer right after a NOP (the table is priority-ordered: aliases come before the wider base format)
		if avEnv("VERIF_PAIRS", 1) != 0 {
			var ws []uint32
			for i := range instFormats {
				f := &instFormats[i]
				ws = append(ws, f.value, f.value|(^f.mask&0x00200421))
			}
			ref := make([]a64Rec, len(ws))
			for i, w := range ws {
				decodeWord(0xd503201f)
				ref[i] = decodeWord(w)
			}
			reported := map[uint32]bool{}
			for ai := 0; ai < len(ws); ai += 2 {
				for bi, wb := range ws {
					decodeWord(ws[ai])
					if r := decodeWord(wb); r != ref[bi] && !reported[wb] {
						reported[wb] = true
						r.Ev, r.Changed = "word", true
						enc.Encode(r)
					}
				}
			}
		}
		for i := len(firstW) - 1; i >= 0; i-- {
			w := firstW[i]
			decodeWord(w ^ 0x80000000)
			decodeWord(w ^ 0x10000000)
			decodeWord(w ^ 1)
			if r := decodeWord(w); r != firstR[i] {
				r.Ev, r.Changed = "word", true
				enc.Encode(r)
			}
		}
	}()
	// B / BL: imm26
	for _, op := range []uint32{0x14000000, 0x94000000} {
		for _, v := range imms(26) {
			emit(op | v)
		}
	}
	// B.cond (o0=0) and the o0=1 neighbour; CBZ/CBNZ (sf 0/1); LDR literal (opc 0..3, V 0/1): imm19 at bits 23..5
	for _, v := range imms(19) {
		low := uint32(rng.Intn(32))
		emit(0x54000000 | v<<5 | uint32(rng.Intn(16)))
		emit(0x54000010 | v<<5 | uint32(rng.Intn(16)))
		for _, base := range []uint32{0x34000000, 0x35000000, 0xB4000000, 0xB5000000, 0x18000000, 0x58000000, 0x98000000, 0xD8000000, 0x1C000000, 0x5C000000, 0x9C000000, 0xDC000000} {
			emit(base | v<<5 | low)
		}
	}
	// TBZ/TBNZ: imm14 at bits 18..5, b40 bits 23..19, b5 bit 31
	for _, v := range imms(14) {
		for _, base := range []uint32{0x36000000, 0x37000000, 0xB6000000, 0xB7000000} {
			emit(base | uint32(rng.Intn(32))<<19 | v<<5 | uint32(rng.Intn(32)))
		}
	}
	// ADR / ADRP: immlo bits 30..29, immhi bits 23..5
	for _, v := range imms(21) {
		for _, base := range []uint32{0x10000000, 0x90000000} {
			emit(base | (v&3)<<29 | (v>>2)<<5 | uint32(rng.Intn(32)))
		}
	}
	// BR / BLR / RET and their neighbours
	for rn := uint32(0); rn < 32; rn++ {
		for _, base := range []uint32{0xD61F0000, 0xD63F0000, 0xD65F0000, 0xD61F0001, 0xD61F0400, 0xD69F0000} {
			emit(base | rn<<5)
		}
	}
	// unallocated top-level groups op0 = 0001, 0011 and random members of every class
	for i := 0; i < nrand; i++ {
		w := rng.Uint32()
		emit(w&^(0xF<<25) | 1<<25)
		emit(w&^(0xF<<25) | 3<<25)
		switch i % 6 {
		case 0:
			emit(0x14000000 | w&0x83FFFFFF)
		case 1:
			emit(0x54000000 | w&0x00FFFFEF)
		case 2:
			emit(0x34000000 | w&0x81FFFFFF)
		case 3:
			emit(0x36000000 | w&0x81FFFFFF)
		case 4:
			emit(0x10000000 | w&0xE0FFFFFF)
		case 5:
			emit(0x18000000 | w&0xC4FFFFFF)
		}
	}
	_ = bits.Len
}
