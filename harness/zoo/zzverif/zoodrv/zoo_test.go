//go:build go1.18

package zoodrv

import (
	"bufio"
	"encoding/json"
	"fmt"
	"os"
	"runtime"
	"strconv"
	"syscall"
	"testing"

	mocker "github.com/tencent/goom"
)

//go:noinline
func deepCall(n int, f func()) int {
	var pad [40]byte
	pad[n%40] = 1
	if n <= 0 {
		f()
		return int(pad[0])
	}
	return deepCall(n-1, f) + int(pad[1])
}

var sink [][]byte

func churn() {
	for i := 0; i < 2; i++ {
		runtime.GC()
		sink = sink[:0]
		for j := 0; j < 1500; j++ {
			sink = append(sink, make([]byte, 24+j%300))
		}
	}
	sink = nil
	runtime.GC()
}

func catchS(f func()) (msg string) {
	defer func() {
		if e := recover(); e != nil {
			msg = "panic:" + fmt.Sprint(e)
		}
	}()
	f()
	return ""
}

//go:noinline
func installAndDrop(c sigCase, mode string, seen *bool) {
	b := mocker.Create()
	if mode == "apply" {
		c.apply(b, seen)
	} else {
		c.stub(b)
	}
}

// TestVerifZoo: for every generated signature: Apply a callback that checks the exact arguments it sees and
// returns marked results, call through every form right after the apply and after forced collections, Reset and
// call again; then the same with a Return stub.
func TestVerifZoo(t *testing.T) {
	out := os.Getenv("VERIF_OUT")
	if out == "" {
		t.Skip()
	}
	if os.Getenv("VERIF_QUIET") != "" {
		if f, err := os.OpenFile("/dev/null", os.O_WRONLY, 0); err == nil {
			syscall.Dup2(int(f.Fd()), 1)
		}
	}
	switch os.Getenv("VERIF_LOG") {
	case "debug":
		mocker.OpenDebug()
	case "trace":
		mocker.OpenTrace()
	}
	of, _ := os.Create(out)
	defer of.Close()
	bw := bufio.NewWriter(of)
	defer bw.Flush()
	enc := json.NewEncoder(bw)
	forms := []string{"direct", "value", "defer", "go", "deep"}
	lim, _ := strconv.Atoi(os.Getenv("VERIF_LIMIT"))
	for k, c := range cases {
		if lim > 0 && k >= lim {
			break
		}
		emit := func(mode, moment, form string, ok bool, detail string) {
			enc.Encode(map[string]interface{}{"sig": k, "desc": c.desc, "mode": mode, "moment": moment, "form": form, "ok": ok, "detail": detail})
		}
		for _, mode := range []string{"apply", "stub"} {
			b := mocker.Create()
			seen := false
			if os.Getenv("VERIF_LOG") == "debug-then-off" {
				mocker.OpenDebug() // the replacement is wrapped by the logging interceptor at apply time ...
			}
			p := catchS(func() {
				if mode == "apply" {
					c.apply(b, &seen)
				} else {
					c.stub(b)
				}
			})
			if os.Getenv("VERIF_LOG") == "debug-then-off" {
				mocker.CloseDebug() // ... and logging is switched off before the calls
			}
			if p != "" {
				emit(mode, "configure", "-", false, p)
				continue
			}
			want := map[string]int{"apply": 1, "stub": 2}[mode]
			for _, moment := range []string{"after-apply", "after-gc"} {
				if moment == "after-gc" {
					churn()
				}
				fs := forms
				if c.variadic && mode == "apply" {
					// the variadic slice itself: none given -> nil; the caller's slice spread -> that very slice
					fs = append(append([]string{}, forms...), "novar", "spread")
				}
				for _, form := range fs {
					seen = false
					var d string
					p := catchS(func() { d = c.call(form, want) })
					if p != "" {
						d = p
					} else if d == "" && mode == "apply" && !seen {
						d = "the callback did not see exactly the caller's arguments"
					}
					emit(mode, moment, form, d == "", d)
				}
			}
			b.Reset()
			var d string
			if p := catchS(func() { d = c.call("direct", 0) }); p != "" {
				d = p
			}
			emit(mode, "after-reset", "direct", d == "", d)
			// the builder is dropped while the mock stays installed: the replacement must stay alive (it is referenced
			// from machine code only; goom's global patch table is its GC root), across collections
			seen2 := false
			if p := catchS(func() { installAndDrop(c, mode, &seen2) }); p != "" {
				emit(mode, "builder-dropped", "configure", false, p)
				continue
			}
			churn()
			churn()
			for _, form := range []string{"direct", "go"} {
				seen2 = false
				var d2 string
				if p := catchS(func() { d2 = c.call(form, want) }); p != "" {
					d2 = p
				} else if d2 == "" && mode == "apply" && !seen2 {
					d2 = "the callback did not see exactly the caller's arguments"
				}
				emit(mode, "builder-dropped-after-gc", form, d2 == "", d2)
			}
			// put the original back through a second builder (re-mock, then reset)
			b2 := mocker.Create()
			catchS(func() { c.stub(b2) })
			b2.Reset()
			d = ""
			if p := catchS(func() { d = c.call("direct", 0) }); p != "" {
				d = p
			}
			emit(mode, "after-second-reset", "direct", d == "", d)
		}
	}
}
