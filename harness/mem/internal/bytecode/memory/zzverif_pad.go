//go:build go1.18 && amd64

package memory

// verifPad is never called: 20 KiB of one-byte NOPs inside the text segment, so that the driver always has a window of three
// whole executable pages of its own to write to (the layout of goom's own padding functions depends on the build).
func verifPad()

// VerifPadRef keeps the sled alive through the linker's dead-code elimination.
var VerifPadRef = verifPad
