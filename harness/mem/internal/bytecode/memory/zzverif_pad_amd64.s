#include "textflag.h"

#define N1 BYTE $0x90
#define N4 N1; N1; N1; N1
#define N16 N4; N4; N4; N4
#define N64 N16; N16; N16; N16
#define N256 N64; N64; N64; N64
#define N1K N256; N256; N256; N256
#define N4K N1K; N1K; N1K; N1K

// func verifPad()
TEXT ·verifPad(SB), NOSPLIT, $0-0
	N4K
	N4K
	N4K
	N4K
	N4K
	RET
