//go:build go1.18 && verif

package memory

import (
	"bufio"
	"bytes"
	"debug/elf"
	"encoding/json"
	"fmt"
	"math/rand"
	"os"
	"strconv"
	"syscall"
	"testing"
	"unsafe"
)

func mvEnv(k string, d int) int {
	if v, err := strconv.Atoi(os.Getenv(k)); err == nil {
		return v
	}
	return d
}

// perms of the three pages of the window starting at base, from /proc/self/maps, as r=4 w=2 x=1
func pagePerms(base uintptr) [3]int {
	var out [3]int
	f, err := os.Open("/proc/self/maps")
	if err != nil {
		return out
	}
	defer f.Close()
	sc := bufio.NewScanner(f)
	for sc.Scan() {
		var lo, hi uintptr
		var perm string
		if _, err := fmt.Sscanf(sc.Text(), "%x-%x %s", &lo, &hi, &perm); err != nil {
			continue
		}
		for i := 0; i < 3; i++ {
			p := base + uintptr(i)*4096
			if p >= lo && p < hi {
				v := 0
				if perm[0] == 'r' {
					v += 4
				}
				if perm[1] == 'w' {
					v += 2
				}
				if perm[2] == 'x' {
					v++
				}
				out[i] = v
			}
		}
	}
	return out
}

type memRec struct {
	Ev      string `json:"ev"`
	Where   string `json:"where"`
	Off     int    `json:"off"`
	Len     int    `json:"len"`
	PLocked [3]int `json:"p_locked"`
	PRwx    [3]int `json:"p_rwx"`
	PCopied [3]int `json:"p_copied"`
	PRx     [3]int `json:"p_rx"`
	PAfter  [3]int `json:"p_after"`
	Changed [2]int `json:"changed"`
	Intact  bool   `json:"intact"`
	Err     string `json:"err"`
	Mode    string `json:"mode"` // which bytes of the data differ from what is there: all / same / head / tail / mid
}

func oneWrite(where string, base uintptr, off, n int, rng *rand.Rand) memRec {
	return oneWriteMode(where, base, off, n, rng, "all")
}

// oneWriteMode: mode says which bytes of the new data differ from the bytes already there - a patch that is written twice, an
// unpatch of something already unpatched, a second jump that differs in a few operand bytes only are all legal writes
func oneWriteMode(where string, base uintptr, off, n int, rng *rand.Rand, mode string) memRec {
	rec := memRec{Ev: "write", Where: where, Off: off, Len: n, Mode: mode}
	win := RawAccess(base, 3*4096)
	before := make([]byte, len(win))
	copy(before, win)
	data := make([]byte, n)
	cut := 1
	if n > 1 {
		cut = 1 + rng.Intn(n-1)
	}
	if b := 4096 - off%4096; b > 0 && b < n && rng.Intn(2) == 0 {
		cut = b // exactly the bytes on one side of the page boundary
	}
	for i := range data {
		differs := true
		switch mode {
		case "same":
			differs = false
		case "head":
			differs = i < cut
		case "tail":
			differs = i >= cut
		case "mid":
			differs = i > 0 && i < n-1
		}
		data[i] = before[off+i]
		if differs {
			data[i] ^= byte(1 + rng.Intn(255))
		}
	}
	VerifHook = func(point string, a, b uintptr) {
		switch point {
		case "mem.locked":
			rec.PLocked = pagePerms(base)
		case "mem.rwx":
			rec.PRwx = pagePerms(base)
		case "mem.copied":
			rec.PCopied = pagePerms(base)
		case "mem.rx":
			rec.PRx = pagePerms(base)
		}
	}
	func() {
		defer func() {
			if e := recover(); e != nil {
				rec.Err = fmt.Sprint(e)
			}
		}()
		if err := WriteTo(base+uintptr(off), data); err != nil {
			rec.Err = err.Error()
		}
	}()
	VerifHook = nil
	rec.PAfter = pagePerms(base)
	lo, hi := -1, -1
	for i := range win {
		if win[i] != before[i] {
			if lo < 0 {
				lo = i
			}
			hi = i + 1
		}
	}
	if lo >= 0 {
		rec.Changed = [2]int{lo, hi}
	}
	rec.Intact = bytes.Equal(win[off:off+n], data)
	// put the old bytes back (through the same writer) so code regions stay executable as they were
	VerifHook = nil
	_ = WriteTo(base+uintptr(off), before[off:off+n])
	return rec
}

// TestVerifMemWrite: WriteTo at every offset around the two inner page boundaries of a 3-page window x every
// length 1..48, on a scratch r-x mapping and (if one of the padding functions contains a page boundary) inside .text.
func TestVerifMemWrite(t *testing.T) {
	out := os.Getenv("VERIF_OUT")
	if out == "" {
		t.Skip()
	}
	of, _ := os.Create(out)
	defer of.Close()
	bw := bufio.NewWriter(of)
	defer bw.Flush()
	enc := json.NewEncoder(bw)
	rng := rand.New(rand.NewSource(int64(mvEnv("VERIF_SEED", 1))))
	m, err := syscall.Mmap(-1, 0, 3*4096, syscall.PROT_READ|syscall.PROT_WRITE, syscall.MAP_PRIVATE|syscall.MAP_ANON)
	if err != nil {
		t.Fatal(err)
	}
	for i := range m {
		m[i] = byte(i * 7)
	}
	if err := syscall.Mprotect(m, syscall.PROT_READ|syscall.PROT_EXEC); err != nil {
		t.Fatal(err)
	}
	base := uintptr(unsafe.Pointer(&m[0]))
	span, maxLen, step := mvEnv("VERIF_SPAN", 40), mvEnv("VERIF_MAXLEN", 48), mvEnv("VERIF_LENSTEP", 1)
	sweep := func(where string, base uintptr, bounds []int) {
		for _, b := range bounds {
			for off := b - span; off < b+4; off++ {
				for n := 1; n <= maxLen; n += step {
					if off < 0 || off+n > 3*4096 {
						continue
					}
					enc.Encode(oneWrite(where, base, off, n, rng))
					if n >= 2 && off < b && off+n > b { // straddling writes: also data that is partly / wholly what is there already
						for _, mode := range []string{"same", "head", "tail", "mid"} {
							enc.Encode(oneWriteMode(where, base, off, n, rng, mode))
						}
					}
				}
			}
		}
		// a write spanning all three pages and writes far from any boundary
		enc.Encode(oneWrite(where, base, 4096-5, 4096+10, rng))
		enc.Encode(oneWrite(where, base, 100, 13, rng))
	}
	sweep("scratch", base, []int{4096, 8192})
	// inside the text segment: a window of three whole pages of the driver's own NOP sled (never executed)
	// (a func value of an assembly function points at its ABI wrapper: the sled itself is found by its bytes)
	if VerifPadRef == nil { // (a real use: the linker drops unreferenced functions)
		t.Fatal("no sled")
	}
	var p uintptr
	if exe, err := os.Executable(); err == nil {
		if f, err := elf.Open(exe); err == nil {
			if text := f.Section(".text"); text != nil {
				if data, err := text.Data(); err == nil {
					if i := bytes.Index(data, bytes.Repeat([]byte{0x90}, 20000)); i >= 0 {
						p = uintptr(text.Addr) + uintptr(i)
					}
				}
			}
			f.Close()
		}
	}
	if p == 0 || *(*byte)(unsafe.Pointer(p)) != 0x90 {
		return
	}
	w := (p + 4095) &^ 4095
	inSled := true
	for _, a := range []uintptr{w, w + 4096, w + 3*4096 - 1} {
		if *(*byte)(unsafe.Pointer(a)) != 0x90 {
			inSled = false
		}
	}
	if inSled && pagePerms(w) == [3]int{5, 5, 5} {
		sweep("text", w, []int{4096, 8192})
	}
}
