//go:build go1.18 && verif

package memory

import (
	"bufio"
	"bytes"
	"encoding/json"
	"fmt"
	"math/rand"
	"os"
	"reflect"
	"strconv"
	"syscall"
	"testing"
	"unsafe"
)

func mvEnv(k string, d int) int {
	if v, err := strconv.Atoi(os.Getenv(k)); err == nil {
		return v
	}
	return d
}

// perms of the three pages of the window starting at base, from /proc/self/maps, as r=4 w=2 x=1
func pagePerms(base uintptr) [3]int {
	var out [3]int
	f, err := os.Open("/proc/self/maps")
	if err != nil {
		return out
	}
	defer f.Close()
	sc := bufio.NewScanner(f)
	for sc.Scan() {
		var lo, hi uintptr
		var perm string
		if _, err := fmt.Sscanf(sc.Text(), "%x-%x %s", &lo, &hi, &perm); err != nil {
			continue
		}
		for i := 0; i < 3; i++ {
			p := base + uintptr(i)*4096
			if p >= lo && p < hi {
				v := 0
				if perm[0] == 'r' {
					v += 4
				}
				if perm[1] == 'w' {
					v += 2
				}
				if perm[2] == 'x' {
					v++
				}
				out[i] = v
			}
		}
	}
	return out
}

type memRec struct {
	Ev      string    `json:"ev"`
	Where   string    `json:"where"`
	Off     int       `json:"off"`
	Len     int       `json:"len"`
	PLocked [3]int `json:"p_locked"`
	PRwx    [3]int `json:"p_rwx"`
	PCopied [3]int `json:"p_copied"`
	PRx     [3]int `json:"p_rx"`
	PAfter  [3]int `json:"p_after"`
	Changed [2]int    `json:"changed"`
	Intact  bool      `json:"intact"`
	Err     string    `json:"err"`
}

func oneWrite(where string, base uintptr, off, n int, rng *rand.Rand) memRec {
	rec := memRec{Ev: "write", Where: where, Off: off, Len: n}
	win := RawAccess(base, 3*4096)
	before := make([]byte, len(win))
	copy(before, win)
	data := make([]byte, n)
	for i := range data {
		data[i] = before[off+i] ^ byte(1+rng.Intn(255)) // every byte differs from what is there
	}
	VerifHook = func(point string, a, b uintptr) {
		switch point {
		case "mem.locked":
			rec.PLocked = pagePerms(base)
		case "mem.rwx":
			rec.PRwx = pagePerms(base)
		case "mem.copied":
			rec.PCopied = pagePerms(base)
		case "mem.rx":
			rec.PRx = pagePerms(base)
		}
	}
	func() {
		defer func() {
			if e := recover(); e != nil {
				rec.Err = fmt.Sprint(e)
			}
		}()
		if err := WriteTo(base+uintptr(off), data); err != nil {
			rec.Err = err.Error()
		}
	}()
	VerifHook = nil
	rec.PAfter = pagePerms(base)
	lo, hi := -1, -1
	for i := range win {
		if win[i] != before[i] {
			if lo < 0 {
				lo = i
			}
			hi = i + 1
		}
	}
	if lo >= 0 {
		rec.Changed = [2]int{lo, hi}
	}
	rec.Intact = bytes.Equal(win[off:off+n], data)
	// put the old bytes back (through the same writer) so code regions stay executable as they were
	VerifHook = nil
	_ = WriteTo(base+uintptr(off), before[off:off+n])
	return rec
}

// TestVerifMemWrite: WriteTo at every offset around the two inner page boundaries of a 3-page window x every
// length 1..48, on a scratch r-x mapping and (if one of the padding functions contains a page boundary) inside .text.
func TestVerifMemWrite(t *testing.T) {
	out := os.Getenv("VERIF_OUT")
	if out == "" {
		t.Skip()
	}
	of, _ := os.Create(out)
	defer of.Close()
	bw := bufio.NewWriter(of)
	defer bw.Flush()
	enc := json.NewEncoder(bw)
	rng := rand.New(rand.NewSource(int64(mvEnv("VERIF_SEED", 1))))
	m, err := syscall.Mmap(-1, 0, 3*4096, syscall.PROT_READ|syscall.PROT_WRITE, syscall.MAP_PRIVATE|syscall.MAP_ANON)
	if err != nil {
		t.Fatal(err)
	}
	for i := range m {
		m[i] = byte(i * 7)
	}
	if err := syscall.Mprotect(m, syscall.PROT_READ|syscall.PROT_EXEC); err != nil {
		t.Fatal(err)
	}
	base := uintptr(unsafe.Pointer(&m[0]))
	span, maxLen, step := mvEnv("VERIF_SPAN", 40), mvEnv("VERIF_MAXLEN", 48), mvEnv("VERIF_LENSTEP", 1)
	sweep := func(where string, base uintptr, bounds []int) {
		for _, b := range bounds {
			for off := b - span; off < b+4; off++ {
				for n := 1; n <= maxLen; n += step {
					if off < 0 || off+n > 3*4096 {
						continue
					}
					enc.Encode(oneWrite(where, base, off, n, rng))
				}
			}
		}
		// a write spanning all three pages and writes far from any boundary
		enc.Encode(oneWrite(where, base, 4096-5, 4096+10, rng))
		enc.Encode(oneWrite(where, base, 100, 13, rng))
	}
	sweep("scratch", base, []int{4096, 8192})
	for _, f := range []interface{}{PaddingLeft, PaddingRight} {
		p := reflect.ValueOf(f).Pointer()
		// skip the ABI wrapper: look for the page boundary inside the next 3000 bytes of straight MOVQ CX,CX
		b := (p + 4095) &^ 4095
		if b-p > 64 && b-p < 2900 {
			w := b - 4096
			sweep("text", w, []int{4096})
			break
		}
	}
}
