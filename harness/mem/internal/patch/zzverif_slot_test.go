//go:build go1.18

package patch

import (
	"bufio"
	"debug/elf"
	"debug/gosym"
	"encoding/json"
	"os"
	"testing"

	"github.com/tencent/goom/internal/bytecode"
)

// TestVerifSlots: every function of this binary as a prospective patch target: its slot (distance to the next
// function entry), the extent goom's scan finds, and whether genJumpData accepts it (pure: nothing is written).
func TestVerifSlots(t *testing.T) {
	out := os.Getenv("VERIF_OUT")
	if out == "" {
		t.Skip()
	}
	exe, _ := os.Executable()
	f, err := elf.Open(exe)
	if err != nil {
		t.Fatal(err)
	}
	text := f.Section(".text")
	pcln, _ := f.Section(".gopclntab").Data()
	tab, _ := gosym.NewTable(nil, gosym.NewLineTable(pcln, text.Addr))
	of, _ := os.Create(out)
	defer of.Close()
	bw := bufio.NewWriter(of)
	defer bw.Flush()
	enc := json.NewEncoder(bw)
	n := 0
	for i, fn := range tab.Funcs {
		if i+1 >= len(tab.Funcs) || fn.Entry < text.Addr || fn.End > text.Addr+text.Size {
			continue
		}
		slot := int(tab.Funcs[i+1].Entry - fn.Entry)
		scanned, _ := bytecode.GetFuncSize(64, uintptr(fn.Entry), false)
		_, err := genJumpData(uintptr(fn.Entry), 0x1000, 0x1000)
		enc.Encode(map[string]interface{}{"ev": "func", "name": fn.Name, "slot": slot, "scanned": scanned, "accepted": err == nil,
			"pageoff": int(fn.Entry % 4096)})
		n++
	}
	t.Logf("functions=%d", n)
}
