//go:build go1.18

package arm64asm

import (
	"bufio"
	"encoding/binary"
	"encoding/json"
	"fmt"
	"math/rand"
	"os"
	"runtime"
	"sync"
	"testing"

	ref "github.com/tencent/goom/zzverif/refa64"
)

// the facts the property names: decodability, opcode, displacement of a PC-relative operand
type a64Facts struct {
	Err   bool
	Op    string
	Has   bool
	Disp  int64
	Panic string
}

func goomFacts(b []byte) (f a64Facts) {
	defer func() {
		if e := recover(); e != nil {
			f = a64Facts{Panic: fmt.Sprint(e)}
		}
	}()
	inst, err := Decode(b)
	if err != nil {
		return a64Facts{Err: true}
	}
	f.Op = inst.Op.String()
	for _, a := range inst.Args {
		if p, ok := a.(PCRel); ok {
			f.Has, f.Disp = true, int64(p)
			break
		}
	}
	return
}

func refFacts(b []byte) (f a64Facts) {
	defer func() {
		if e := recover(); e != nil {
			f = a64Facts{Panic: fmt.Sprint(e)}
		}
	}()
	inst, err := ref.Decode(b)
	if err != nil {
		return a64Facts{Err: true}
	}
	f.Op = inst.Op.String()
	for _, a := range inst.Args {
		if p, ok := a.(ref.PCRel); ok {
			f.Has, f.Disp = true, int64(p)
			break
		}
	}
	return
}

type a64Diff struct {
	Ev     string `json:"ev"`
	B      [4]int `json:"b"`
	Err    bool   `json:"err"`
	Op     string `json:"op"`
	Has    bool   `json:"has"`
	Disp   int    `json:"disp"` // in words (all A64 displacements are multiples of 4; ADRP: pages)
	Panic  string `json:"panic"`
	RErr   bool   `json:"rerr"`
	ROp    string `json:"rop"`
	RHas   bool   `json:"rhas"`
	RDisp  int    `json:"rdisp"`
	RPanic string `json:"rpanic"`
	Agree  bool   `json:"agree"`
}

func scaled(op string, d int64) int {
	if op == "ADRP" {
		return int(d >> 12)
	}
	if op == "ADR" {
		return int(d)
	}
	return int(d >> 2)
}

func diffRec(w uint32, g, r a64Facts) a64Diff {
	var b [4]byte
	binary.LittleEndian.PutUint32(b[:], w)
	return a64Diff{Ev: "diff", B: [4]int{int(b[0]), int(b[1]), int(b[2]), int(b[3])}, Err: g.Err, Op: g.Op, Has: g.Has, Disp: scaled(g.Op, g.Disp),
		Panic: g.Panic, RErr: r.Err, ROp: r.Op, RHas: r.Has, RDisp: scaled(r.Op, r.Disp), RPanic: r.Panic, Agree: g == r}
}

// the system-instruction words (SYS / SYSL: 1101 0101 00x0 1...) - only used to THIN OUT what is recorded; the verdict on every
// recorded disagreement is TLC's (Trace_A64.JudgeDiff)
func sysWord(w uint32) bool { return w&0xffd80000 == 0xd5080000 }

// TestVerifA64Diff: goom's decoder against the reference decoder (the Go toolchain's own copy of x/arch arm64asm, copied into
// the build at check time) on every VERIF_STRIDE-th word of the 2^32 space and on a sample of every format of goom's table.
// One summary per 2^24-word chunk; every disagreement outside the system-instruction space is recorded (first 300 per
// chunk), inside it every 64th.
func TestVerifA64Diff(t *testing.T) {
	out := os.Getenv("VERIF_OUT")
	if out == "" {
		t.Skip()
	}
	of, _ := os.Create(out)
	defer of.Close()
	bw := bufio.NewWriterSize(of, 1<<20)
	defer bw.Flush()
	enc := json.NewEncoder(bw)
	stride := uint64(avEnv("VERIF_STRIDE", 61))
	phase := uint64(avEnv("VERIF_SEED", 1)) % stride
	const chunks = 256
	type sum struct{ words, agree, sysdiff, otherdiff int }
	sums := make([]sum, chunks)
	recs := make([][]a64Diff, chunks)
	var wg sync.WaitGroup
	sem := make(chan struct{}, runtime.NumCPU())
	for c := 0; c < chunks; c++ {
		wg.Add(1)
		sem <- struct{}{}
		go func(c int) {
			defer wg.Done()
			defer func() { <-sem }()
			lo, hi := uint64(c)<<24, uint64(c+1)<<24
			start := lo + (stride-(lo%stride)+phase)%stride
			var b [4]byte
			s := sum{}
			for x := start; x < hi; x += stride {
				w := uint32(x)
				binary.LittleEndian.PutUint32(b[:], w)
				s.words++
				g, r := goomFacts(b[:]), refFacts(b[:])
				if g == r {
					s.agree++
					continue
				}
				if sysWord(w) {
					if s.sysdiff%64 == 0 {
						recs[c] = append(recs[c], diffRec(w, g, r))
					}
					s.sysdiff++
				} else {
					if s.otherdiff < 300 {
						recs[c] = append(recs[c], diffRec(w, g, r))
					}
					s.otherdiff++
				}
			}
			sums[c] = s
		}(c)
	}
	wg.Wait()
	for c, s := range sums {
		enc.Encode(map[string]interface{}{"ev": "dchunk", "chunk": c, "words": s.words, "agree": s.agree, "sysdiff": s.sysdiff, "otherdiff": s.otherdiff})
		for _, r := range recs[c] {
			enc.Encode(r)
		}
	}
	// every format of goom's own table: its value with the free bits all zero, all one, and random fills
	rng := rand.New(rand.NewSource(int64(avEnv("VERIF_SEED", 1))))
	nfill := avEnv("VERIF_FILLS", 48)
	var b [4]byte
	nf, nd := 0, 0
	for i := range instFormats {
		f := &instFormats[i]
		ws := []uint32{f.value, f.value | ^f.mask}
		for j := 0; j < nfill; j++ {
			ws = append(ws, f.value|(rng.Uint32()&^f.mask))
		}
		for _, w := range ws {
			binary.LittleEndian.PutUint32(b[:], w)
			g, r := goomFacts(b[:]), refFacts(b[:])
			nf++
			if g != r {
				nd++
				if !sysWord(w) || nd%16 == 0 {
					enc.Encode(diffRec(w, g, r))
				}
			}
		}
	}
	// agreeing records, so that the judge's "agree" branch is exercised too
	for _, w := range []uint32{0x14000001, 0x97ffffff, 0x10000000, 0x90000001, 0xd65f03c0, 0x320003e0, 0xd503201f} {
		binary.LittleEndian.PutUint32(b[:], w)
		enc.Encode(diffRec(w, goomFacts(b[:]), refFacts(b[:])))
	}
	t.Logf("format fills=%d differing=%d", nf, nd)
}
