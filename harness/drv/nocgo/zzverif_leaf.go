//go:build go1.18

// Package nocgo (verification corpus, injected by overlay into a directory that exists in the repository because the
// assembler needs a real directory): an assembly leaf that is SHORTER than goom's 13-byte entry jump and is followed, inside the same
// TEXT symbol (no padding), by code the bundled decoder cannot decode (an EVEX-encoded instruction). Such a target must be
// refused, and no byte behind it may change.
package nocgo

const Pkg = "github.com/tencent/goom/nocgo"

// Hit records which piece of code ran.
var Hit int

func leaf()

// CallLeaf calls the leaf and reports what ran.
func CallLeaf() int {
	Hit = 0
	callLeaf()
	return Hit
}

func callLeaf()
