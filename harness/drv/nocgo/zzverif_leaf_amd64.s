//go:build go1.18

#include "textflag.h"

// leaf: MOVQ $0x11, Hit(SB) (11 bytes) ; RET (1 byte) = 12 bytes, then - same symbol - an AVX-512 sequence.
TEXT ·leaf(SB),NOSPLIT,$0-0
	MOVQ	$0x11, ·Hit(SB)
	RET
	VPXORQ	Z1, Z1, Z1
	VPADDQ	Z1, Z1, Z1
	VZEROUPPER
	MOVQ	$0x22, ·Hit(SB)
	RET

TEXT ·callLeaf(SB),NOSPLIT,$0-0
	CALL	·leaf(SB)
	RET
