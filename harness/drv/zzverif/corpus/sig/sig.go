//go:build go1.18

// Package sig: one target per signature class of spec/When.tla.
package sig

import "fmt"

//go:noinline
func work(i int) int {
	if i < -10000 {
		fmt.Println("never")
	}
	return i
}

//go:noinline
func F1(a int) int { return work(a) + 100 }

//go:noinline
func F2(a, b int) int { return work(a) + work(b) + 200 }

//go:noinline
func V0(xs ...int) int { return work(len(xs)) + 300 }

//go:noinline
func V1(a int, xs ...int) int { return work(a) + work(len(xs)) + 400 }

//go:noinline
func V2(a, b int, xs ...int) int { return work(a) + work(b) + work(len(xs)) + 500 }

type S struct{ Tag int }

//go:noinline
func (s *S) M1(a int) int { return work(a) + 600 + 0*s.Tag }

//go:noinline
func (s *S) M2(a, b int) int { return work(a) + work(b) + 650 + 0*s.Tag }

//go:noinline
func (s *S) MV(a int, xs ...int) int { return work(a) + work(len(xs)) + 700 + 0*s.Tag }

var N1Ran int

//go:noinline
func N1(a int) { N1Ran += work(a) + 1 }

// typed signatures for the conditional-stub pipeline: a string and a pointer (compared by pointee), strings in a variadic tail
type P struct {
	N int
	S string
}

//go:noinline
func T2(a string, p *P) int { return work(len(a)) + 800 }

//go:noinline
func TV(a string, xs ...string) int { return work(len(a)) + work(len(xs)) + 900 }
const Pkg = "github.com/tencent/goom/zzverif/corpus/sig"
