//go:build go1.18

package ifc

import "fmt"

// Big: an interface with 12 methods (two of them unexported) and 12 variables holding an implementation (spec/Scale.tla, instance ScaleI).
type Big interface {
	M01(int) int
	M02(int) int
	M03(int) int
	M04(int) int
	m05(int) int
	M06(int) int
	M07(int) int
	M08(int) int
	M09(int) int
	m10(int) int
	M11(int) int
	M12(int) int
}

// BigNames lists the method names, index 0 = method 1.
var BigNames = []string{"M01", "M02", "M03", "M04", "m05", "M06", "M07", "M08", "M09", "m10", "M11", "M12"}

type bigImpl struct{ v int }

func (p *bigImpl) M01(a int) int {
	if a < -10000 {
		fmt.Println("never")
	}
	return 50000 + p.v*1000 + 1*10 + a
}

func (p *bigImpl) M02(a int) int {
	if a < -10000 {
		fmt.Println("never")
	}
	return 50000 + p.v*1000 + 2*10 + a
}

func (p *bigImpl) M03(a int) int {
	if a < -10000 {
		fmt.Println("never")
	}
	return 50000 + p.v*1000 + 3*10 + a
}

func (p *bigImpl) M04(a int) int {
	if a < -10000 {
		fmt.Println("never")
	}
	return 50000 + p.v*1000 + 4*10 + a
}

func (p *bigImpl) m05(a int) int {
	if a < -10000 {
		fmt.Println("never")
	}
	return 50000 + p.v*1000 + 5*10 + a
}

func (p *bigImpl) M06(a int) int {
	if a < -10000 {
		fmt.Println("never")
	}
	return 50000 + p.v*1000 + 6*10 + a
}

func (p *bigImpl) M07(a int) int {
	if a < -10000 {
		fmt.Println("never")
	}
	return 50000 + p.v*1000 + 7*10 + a
}

func (p *bigImpl) M08(a int) int {
	if a < -10000 {
		fmt.Println("never")
	}
	return 50000 + p.v*1000 + 8*10 + a
}

func (p *bigImpl) M09(a int) int {
	if a < -10000 {
		fmt.Println("never")
	}
	return 50000 + p.v*1000 + 9*10 + a
}

func (p *bigImpl) m10(a int) int {
	if a < -10000 {
		fmt.Println("never")
	}
	return 50000 + p.v*1000 + 10*10 + a
}

func (p *bigImpl) M11(a int) int {
	if a < -10000 {
		fmt.Println("never")
	}
	return 50000 + p.v*1000 + 11*10 + a
}

func (p *bigImpl) M12(a int) int {
	if a < -10000 {
		fmt.Println("never")
	}
	return 50000 + p.v*1000 + 12*10 + a
}

// BigV: the variables (index 0 = variable 1).
var BigV [12]Big

func init() { RestoreBig() }

// RestoreBig puts the original implementations back (the harness, not goom, between behaviours).
func RestoreBig() {
	for i := range BigV {
		BigV[i] = &bigImpl{v: i + 1}
	}
}

// BigOrig: what the original implementation of method m of variable v answers.
func BigOrig(v, m, a int) int { return 50000 + v*1000 + m*10 + a }

// CallBig calls method m (1..12) of variable v (1..12).
func CallBig(v, m, a int) int {
	x := BigV[v-1]
	switch m {
	case 1:
		return x.M01(a)
	case 2:
		return x.M02(a)
	case 3:
		return x.M03(a)
	case 4:
		return x.M04(a)
	case 5:
		return x.m05(a)
	case 6:
		return x.M06(a)
	case 7:
		return x.M07(a)
	case 8:
		return x.M08(a)
	case 9:
		return x.M09(a)
	case 10:
		return x.m10(a)
	case 11:
		return x.M11(a)
	case 12:
		return x.M12(a)
	}
	panic("no such method")
}
