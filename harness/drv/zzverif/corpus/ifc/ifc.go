//go:build go1.18

// Package ifc: interface zoo for spec/Iface.tla (C07).
package ifc

import "unsafe"

// I: three methods, the middle one (in sorted itab order: A, C, b) unexported.
type I interface {
	A(int) int
	b(int) int
	C(int) int
}

// J: one method; K embeds J.
type J interface{ Z(int) int }
type K interface {
	J
	Y(int) int
}

type impl struct{ tag int }

func (p *impl) A(a int) int { return 500 + a }
func (p *impl) b(a int) int { return 600 + a }
func (p *impl) C(a int) int { return 700 + a }
func (p *impl) Z(a int) int { return 800 + a }
func (p *impl) Y(a int) int { return 900 + a }

var Real = &impl{1}

// I1 starts nil, I2 holds a real implementation; J1 nil; K1 real.
var (
	I1 I
	I2 I = Real
	J1 J
	K1 K = Real
)

func Restore() {
	I1, I2, J1, K1 = nil, Real, nil, Real
	L1.Restore()
	L2.Restore()
}

// Local: a variable of a function-local interface type, reachable only through closures made where the type is in
// scope. L1 and L2 are variables of two DIFFERENT types that share package path and name ("ifc.svc"); method "Beta"
// sits at slot 1 of the first (Alpha, Beta) and at slot 0 of the second (Beta, Gamma).
type Local struct {
	Ptr     interface{}                // *svc
	Addr    func() [2]uintptr          // the two words of the variable
	Call    func(m string, a int) int  // v.<m>(a)
	Restore func()
}

var L1, L2 Local

func init() {
	{
		type svc interface {
			Alpha(int) int
			Beta(int) int
		}
		var v svc
		L1 = Local{Ptr: &v, Restore: func() { v = nil },
			Addr: func() [2]uintptr { return *(*[2]uintptr)(unsafe.Pointer(&v)) },
			Call: func(m string, a int) int {
				if m == "Alpha" {
					return v.Alpha(a)
				}
				return v.Beta(a)
			}}
	}
	{
		type svc interface {
			Beta(int) int
			Gamma(int) int
		}
		var v svc
		L2 = Local{Ptr: &v, Restore: func() { v = nil },
			Addr: func() [2]uintptr { return *(*[2]uintptr)(unsafe.Pointer(&v)) },
			Call: func(m string, a int) int {
				if m == "Gamma" {
					return v.Gamma(a)
				}
				return v.Beta(a)
			}}
	}
}

// CallI calls method m of the value held by an I variable (b is unexported, so the call lives here).
func CallI(i I, m string, a int) int {
	switch m {
	case "A":
		return i.A(a)
	case "b":
		return i.b(a)
	}
	return i.C(a)
}
