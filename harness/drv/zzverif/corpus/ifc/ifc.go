//go:build go1.18

// Package ifc: interface zoo for spec/Iface.tla (C07).
package ifc

// I: three methods, the middle one (in sorted itab order: A, C, b) unexported.
type I interface {
	A(int) int
	b(int) int
	C(int) int
}

// J: one method; K embeds J.
type J interface{ Z(int) int }
type K interface {
	J
	Y(int) int
}

type impl struct{ tag int }

func (p *impl) A(a int) int { return 500 + a }
func (p *impl) b(a int) int { return 600 + a }
func (p *impl) C(a int) int { return 700 + a }
func (p *impl) Z(a int) int { return 800 + a }
func (p *impl) Y(a int) int { return 900 + a }

var Real = &impl{1}

// I1 starts nil, I2 holds a real implementation; J1 nil; K1 real.
var (
	I1 I
	I2 I = Real
	J1 J
	K1 K = Real
)

func Restore() { I1, I2, J1, K1 = nil, Real, nil, Real }

// CallI calls method m of the value held by an I variable (b is unexported, so the call lives here).
func CallI(i I, m string, a int) int {
	switch m {
	case "A":
		return i.A(a)
	case "b":
		return i.b(a)
	}
	return i.C(a)
}
