//go:build go1.18

// Package pb (v2): see zzverif/corpus/v1/pb.
package pb

import "fmt"

type Rec struct {
	ID   int
	Name string
}

//go:noinline
func Load() Rec {
	if fmt.Sprint() == "never" {
		return Rec{ID: -2}
	}
	return Rec{ID: -1, Name: "orig"}
}
