//go:build go1.18

// Package pb (v1): a package with the SAME NAME as zzverif/corpus/v2/pb and a type of the same name but another size - the two
// func types `func() pb.Rec` print identically.
package pb

import "fmt"

type Rec struct{ ID int }

//go:noinline
func Load() Rec {
	if fmt.Sprint() == "never" {
		return Rec{ID: -2}
	}
	return Rec{ID: -1}
}
