//go:build go1.18

// Package fn holds the lifecycle targets of spec/Goom.tla: plain functions, methods, unexported
// twins, their origin placeholders, and sentinel neighbours whose bytes must never change.
// Original behaviour: target number k returns 1000*k + a.
package fn

import "fmt"

var sink int

//go:noinline
func work(i int) int {
	if i < -10000 {
		fmt.Println("never")
	}
	return i
}

//go:noinline
func SentinelA(i int) int { return work(i) + 11 }

//go:noinline
func F(a int) int { return work(a) + 1000 }

//go:noinline
func SentinelB(i int) int { return work(i) + 12 }

//go:noinline
func G(a int) int { return work(a) + 2000 }

//go:noinline
func SentinelC(i int) int { return work(i) + 13 }

//go:noinline
func H(a int) int { return work(a) + 3000 }

// Gen is a generic function: a mock of an instantiation goes through the wrapper scan (GetInnerFunc) before the patch lock.
//
//go:noinline
func Gen[T int | int64]() T { return T(work(5) + 4000) }

// Loop has its loop head inside the first bytes of its body: it can be mocked, but its entry cannot be relocated into an
// origin placeholder (a branch of the function jumps into the bytes the entry jump overwrites), so an Apply that asks for
// an Origin is rejected - inside the patch step, after the patch table has been consulted.
//
//go:noinline
func Loop(n int) int {
	for n > 100 {
		n -= 3
	}
	return n
}

//go:noinline
func PhLoop(a int) int { return filler(a) - 1100 }

var OLoop = PhLoop

// GenF, GenG, GenH: the targets f, g, h of the lifecycle family as instantiations of generic functions
// (goom supports generic functions without parameters: the shape body's first argument is the dictionary).
//
//go:noinline
func GenF[T int | int64]() T { return T(work(0) + 1000) }

//go:noinline
func GenG[T int | int64]() T { return T(work(0) + 2000) }

//go:noinline
func GenH[T int | int64]() T { return T(work(0) + 3000) }

//go:noinline
func f(a int) int { return work(a) + 1000 }

//go:noinline
func g(a int) int { return work(a) + 2000 }

//go:noinline
func h(a int) int { return work(a) + 3000 }

// CallUE calls the unexported twins from inside the package.
func CallUE(t string, a int) int {
	switch t {
	case "f":
		return f(a)
	case "g":
		return g(a)
	}
	return h(a)
}

// S has pointer-receiver methods; V value-receiver methods.
type S struct{ Tag int }

//go:noinline
func (s *S) F(a int) int { return work(a) + 1000 + 0*s.Tag }

//go:noinline
func (s *S) G(a int) int { return work(a) + 2000 + 0*s.Tag }

//go:noinline
func (s *S) H(a int) int { return work(a) + 3000 + 0*s.Tag }

//go:noinline
func (s *S) f(a int) int { return work(a) + 1000 + 0*s.Tag }

//go:noinline
func (s *S) g(a int) int { return work(a) + 2000 + 0*s.Tag }

//go:noinline
func (s *S) h(a int) int { return work(a) + 3000 + 0*s.Tag }

// CallUEM calls the unexported methods.
func (s *S) CallUEM(t string, a int) int {
	switch t {
	case "f":
		return s.f(a)
	case "g":
		return s.g(a)
	}
	return s.h(a)
}

// placeholders: bodies are filler that goom overwrites with the trampoline
func filler(i int) int {
	fmt.Println("only for placeholder, will not call", i)
	fmt.Println("only for placeholder, will not call", i+1)
	fmt.Println("only for placeholder, will not call", i+2)
	return -1
}

//go:noinline
func PhF(a int) int { return filler(a) - 100 }

//go:noinline
func PhG(a int) int { return filler(a) - 200 }

//go:noinline
func PhH(a int) int { return filler(a) - 300 }

//go:noinline
func PhMF(s *S, a int) int { return filler(a) - 400 }

//go:noinline
func PhMG(s *S, a int) int { return filler(a) - 500 }

//go:noinline
func PhMH(s *S, a int) int { return filler(a) - 600 }

//go:noinline
func PhUF(a int) int { return filler(a) - 700 }

//go:noinline
func PhUG(a int) int { return filler(a) - 800 }

//go:noinline
func PhUH(a int) int { return filler(a) - 900 }

// the variables handed to Origin(&v)
var (
	OF, OG, OH    = PhF, PhG, PhH
	OMF, OMG, OMH = PhMF, PhMG, PhMH
	OUF, OUG, OUH = PhUF, PhUG, PhUH
)

// RestoreOrigins points the origin variables back at their placeholder functions.
func RestoreOrigins() {
	OF, OG, OH = PhF, PhG, PhH
	OLoop = PhLoop
	OMF, OMG, OMH = PhMF, PhMG, PhMH
	OUF, OUG, OUH = PhUF, PhUG, PhUH
}

const Pkg = "github.com/tencent/goom/zzverif/corpus/fn"

// Big has a large frame: its stack check fails while its callers still had room.
//
//go:noinline
func Big(a int) int {
	var buf [1024]byte
	buf[a%1024] = byte(a)
	return work(a) + 4000 + int(buf[(a+1)%1024])
}

//go:noinline
func PhBig(a int) int { return filler(a) - 1000 }

var OBig = PhBig

//go:noinline
func dup(a int) int { return work(a) + 1100 }

// dupS / Get: the same type and method names exist in fn2 and in the driver's package.
type dupS struct{ Tag int }

//go:noinline
func (p *dupS) Get(a int) int { return work(a) + 1150 + p.Tag }

var dupInst = &dupS{}

// CallDupM reaches (*dupS).Get of this package.
func CallDupM(a int) int { return dupInst.Get(a) }

// CallDup reaches the unexported dup of this package.
func CallDup(a int) int { return dup(a) }

// LitF / LitG / LitH: FUNCTION LITERALS as mock targets (symbols pkg.glob..funcN / pkg.init.funcN); their bodies call an ordinary
// function first, like most literals do.
var (
	LitF = func(a int) int { return work(a) + 1000 }
	LitG = func(a int) int { return work(a) + 2000 }
	LitH = func(a int) int { return work(a) + 3000 }
)
