//go:build go1.18

package fn

// Scale corpus (spec/Scale.tla): 64 consecutive small functions (dozens per page), one target for a conditional stub with
// many conditions, one for a long sequenced stub. Generated once; kept as a plain file.

//go:noinline
func S01(a int) int { return work(a) + 1000 }

//go:noinline
func S02(a int) int { return work(a) + 2000 }

//go:noinline
func S03(a int) int { return work(a) + 3000 }

//go:noinline
func S04(a int) int { return work(a) + 4000 }

//go:noinline
func S05(a int) int { return work(a) + 5000 }

//go:noinline
func S06(a int) int { return work(a) + 6000 }

//go:noinline
func S07(a int) int { return work(a) + 7000 }

//go:noinline
func S08(a int) int { return work(a) + 8000 }

//go:noinline
func S09(a int) int { return work(a) + 9000 }

//go:noinline
func S10(a int) int { return work(a) + 10000 }

//go:noinline
func S11(a int) int { return work(a) + 11000 }

//go:noinline
func S12(a int) int { return work(a) + 12000 }

//go:noinline
func S13(a int) int { return work(a) + 13000 }

//go:noinline
func S14(a int) int { return work(a) + 14000 }

//go:noinline
func S15(a int) int { return work(a) + 15000 }

//go:noinline
func S16(a int) int { return work(a) + 16000 }

//go:noinline
func S17(a int) int { return work(a) + 17000 }

//go:noinline
func S18(a int) int { return work(a) + 18000 }

//go:noinline
func S19(a int) int { return work(a) + 19000 }

//go:noinline
func S20(a int) int { return work(a) + 20000 }

//go:noinline
func S21(a int) int { return work(a) + 21000 }

//go:noinline
func S22(a int) int { return work(a) + 22000 }

//go:noinline
func S23(a int) int { return work(a) + 23000 }

//go:noinline
func S24(a int) int { return work(a) + 24000 }

//go:noinline
func S25(a int) int { return work(a) + 25000 }

//go:noinline
func S26(a int) int { return work(a) + 26000 }

//go:noinline
func S27(a int) int { return work(a) + 27000 }

//go:noinline
func S28(a int) int { return work(a) + 28000 }

//go:noinline
func S29(a int) int { return work(a) + 29000 }

//go:noinline
func S30(a int) int { return work(a) + 30000 }

//go:noinline
func S31(a int) int { return work(a) + 31000 }

//go:noinline
func S32(a int) int { return work(a) + 32000 }

//go:noinline
func S33(a int) int { return work(a) + 33000 }

//go:noinline
func S34(a int) int { return work(a) + 34000 }

//go:noinline
func S35(a int) int { return work(a) + 35000 }

//go:noinline
func S36(a int) int { return work(a) + 36000 }

//go:noinline
func S37(a int) int { return work(a) + 37000 }

//go:noinline
func S38(a int) int { return work(a) + 38000 }

//go:noinline
func S39(a int) int { return work(a) + 39000 }

//go:noinline
func S40(a int) int { return work(a) + 40000 }

//go:noinline
func S41(a int) int { return work(a) + 41000 }

//go:noinline
func S42(a int) int { return work(a) + 42000 }

//go:noinline
func S43(a int) int { return work(a) + 43000 }

//go:noinline
func S44(a int) int { return work(a) + 44000 }

//go:noinline
func S45(a int) int { return work(a) + 45000 }

//go:noinline
func S46(a int) int { return work(a) + 46000 }

//go:noinline
func S47(a int) int { return work(a) + 47000 }

//go:noinline
func S48(a int) int { return work(a) + 48000 }

//go:noinline
func S49(a int) int { return work(a) + 49000 }

//go:noinline
func S50(a int) int { return work(a) + 50000 }

//go:noinline
func S51(a int) int { return work(a) + 51000 }

//go:noinline
func S52(a int) int { return work(a) + 52000 }

//go:noinline
func S53(a int) int { return work(a) + 53000 }

//go:noinline
func S54(a int) int { return work(a) + 54000 }

//go:noinline
func S55(a int) int { return work(a) + 55000 }

//go:noinline
func S56(a int) int { return work(a) + 56000 }

//go:noinline
func S57(a int) int { return work(a) + 57000 }

//go:noinline
func S58(a int) int { return work(a) + 58000 }

//go:noinline
func S59(a int) int { return work(a) + 59000 }

//go:noinline
func S60(a int) int { return work(a) + 60000 }

//go:noinline
func S61(a int) int { return work(a) + 61000 }

//go:noinline
func S62(a int) int { return work(a) + 62000 }

//go:noinline
func S63(a int) int { return work(a) + 63000 }

//go:noinline
func S64(a int) int { return work(a) + 64000 }

// Scale lists S01..S64 (index 0 = S01).
var Scale = []func(int) int{S01, S02, S03, S04, S05, S06, S07, S08, S09, S10, S11, S12, S13, S14, S15, S16, S17, S18, S19, S20, S21, S22, S23, S24, S25, S26, S27, S28, S29, S30, S31, S32, S33, S34, S35, S36, S37, S38, S39, S40, S41, S42, S43, S44, S45, S46, S47, S48, S49, S50, S51, S52, S53, S54, S55, S56, S57, S58, S59, S60, S61, S62, S63, S64}

//go:noinline
func ScaleC(a int) int { return work(a) + 77000 }

//go:noinline
func ScaleQ(a int) int { return work(a) + 88000 }
