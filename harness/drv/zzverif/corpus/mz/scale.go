//go:build go1.18

package mz

// Scale corpus for methods (spec/Scale.tla bound to 8 struct types x 8 methods; target i = (type-1)*8 + method).

type Q1 struct{ Tag int }

//go:noinline
func (p *Q1) M1(a int) int { return w(a) + 1000 + p.Tag }

//go:noinline
func (p *Q1) M2(a int) int { return w(a) + 2000 + p.Tag }

//go:noinline
func (p *Q1) M3(a int) int { return w(a) + 3000 + p.Tag }

//go:noinline
func (p *Q1) M4(a int) int { return w(a) + 4000 + p.Tag }

//go:noinline
func (p *Q1) M5(a int) int { return w(a) + 5000 + p.Tag }

//go:noinline
func (p *Q1) M6(a int) int { return w(a) + 6000 + p.Tag }

//go:noinline
func (p *Q1) M7(a int) int { return w(a) + 7000 + p.Tag }

//go:noinline
func (p *Q1) M8(a int) int { return w(a) + 8000 + p.Tag }

type Q2 struct{ Tag int }

//go:noinline
func (p *Q2) M1(a int) int { return w(a) + 9000 + p.Tag }

//go:noinline
func (p *Q2) M2(a int) int { return w(a) + 10000 + p.Tag }

//go:noinline
func (p *Q2) M3(a int) int { return w(a) + 11000 + p.Tag }

//go:noinline
func (p *Q2) M4(a int) int { return w(a) + 12000 + p.Tag }

//go:noinline
func (p *Q2) M5(a int) int { return w(a) + 13000 + p.Tag }

//go:noinline
func (p *Q2) M6(a int) int { return w(a) + 14000 + p.Tag }

//go:noinline
func (p *Q2) M7(a int) int { return w(a) + 15000 + p.Tag }

//go:noinline
func (p *Q2) M8(a int) int { return w(a) + 16000 + p.Tag }

type Q3 struct{ Tag int }

//go:noinline
func (p *Q3) M1(a int) int { return w(a) + 17000 + p.Tag }

//go:noinline
func (p *Q3) M2(a int) int { return w(a) + 18000 + p.Tag }

//go:noinline
func (p *Q3) M3(a int) int { return w(a) + 19000 + p.Tag }

//go:noinline
func (p *Q3) M4(a int) int { return w(a) + 20000 + p.Tag }

//go:noinline
func (p *Q3) M5(a int) int { return w(a) + 21000 + p.Tag }

//go:noinline
func (p *Q3) M6(a int) int { return w(a) + 22000 + p.Tag }

//go:noinline
func (p *Q3) M7(a int) int { return w(a) + 23000 + p.Tag }

//go:noinline
func (p *Q3) M8(a int) int { return w(a) + 24000 + p.Tag }

type Q4 struct{ Tag int }

//go:noinline
func (p *Q4) M1(a int) int { return w(a) + 25000 + p.Tag }

//go:noinline
func (p *Q4) M2(a int) int { return w(a) + 26000 + p.Tag }

//go:noinline
func (p *Q4) M3(a int) int { return w(a) + 27000 + p.Tag }

//go:noinline
func (p *Q4) M4(a int) int { return w(a) + 28000 + p.Tag }

//go:noinline
func (p *Q4) M5(a int) int { return w(a) + 29000 + p.Tag }

//go:noinline
func (p *Q4) M6(a int) int { return w(a) + 30000 + p.Tag }

//go:noinline
func (p *Q4) M7(a int) int { return w(a) + 31000 + p.Tag }

//go:noinline
func (p *Q4) M8(a int) int { return w(a) + 32000 + p.Tag }

type Q5 struct{ Tag int }

//go:noinline
func (p *Q5) M1(a int) int { return w(a) + 33000 + p.Tag }

//go:noinline
func (p *Q5) M2(a int) int { return w(a) + 34000 + p.Tag }

//go:noinline
func (p *Q5) M3(a int) int { return w(a) + 35000 + p.Tag }

//go:noinline
func (p *Q5) M4(a int) int { return w(a) + 36000 + p.Tag }

//go:noinline
func (p *Q5) M5(a int) int { return w(a) + 37000 + p.Tag }

//go:noinline
func (p *Q5) M6(a int) int { return w(a) + 38000 + p.Tag }

//go:noinline
func (p *Q5) M7(a int) int { return w(a) + 39000 + p.Tag }

//go:noinline
func (p *Q5) M8(a int) int { return w(a) + 40000 + p.Tag }

type Q6 struct{ Tag int }

//go:noinline
func (p *Q6) M1(a int) int { return w(a) + 41000 + p.Tag }

//go:noinline
func (p *Q6) M2(a int) int { return w(a) + 42000 + p.Tag }

//go:noinline
func (p *Q6) M3(a int) int { return w(a) + 43000 + p.Tag }

//go:noinline
func (p *Q6) M4(a int) int { return w(a) + 44000 + p.Tag }

//go:noinline
func (p *Q6) M5(a int) int { return w(a) + 45000 + p.Tag }

//go:noinline
func (p *Q6) M6(a int) int { return w(a) + 46000 + p.Tag }

//go:noinline
func (p *Q6) M7(a int) int { return w(a) + 47000 + p.Tag }

//go:noinline
func (p *Q6) M8(a int) int { return w(a) + 48000 + p.Tag }

type Q7 struct{ Tag int }

//go:noinline
func (p *Q7) M1(a int) int { return w(a) + 49000 + p.Tag }

//go:noinline
func (p *Q7) M2(a int) int { return w(a) + 50000 + p.Tag }

//go:noinline
func (p *Q7) M3(a int) int { return w(a) + 51000 + p.Tag }

//go:noinline
func (p *Q7) M4(a int) int { return w(a) + 52000 + p.Tag }

//go:noinline
func (p *Q7) M5(a int) int { return w(a) + 53000 + p.Tag }

//go:noinline
func (p *Q7) M6(a int) int { return w(a) + 54000 + p.Tag }

//go:noinline
func (p *Q7) M7(a int) int { return w(a) + 55000 + p.Tag }

//go:noinline
func (p *Q7) M8(a int) int { return w(a) + 56000 + p.Tag }

type Q8 struct{ Tag int }

//go:noinline
func (p *Q8) M1(a int) int { return w(a) + 57000 + p.Tag }

//go:noinline
func (p *Q8) M2(a int) int { return w(a) + 58000 + p.Tag }

//go:noinline
func (p *Q8) M3(a int) int { return w(a) + 59000 + p.Tag }

//go:noinline
func (p *Q8) M4(a int) int { return w(a) + 60000 + p.Tag }

//go:noinline
func (p *Q8) M5(a int) int { return w(a) + 61000 + p.Tag }

//go:noinline
func (p *Q8) M6(a int) int { return w(a) + 62000 + p.Tag }

//go:noinline
func (p *Q8) M7(a int) int { return w(a) + 63000 + p.Tag }

//go:noinline
func (p *Q8) M8(a int) int { return w(a) + 64000 + p.Tag }

var (
	q1 = &Q1{}
	q2 = &Q2{}
	q3 = &Q3{}
	q4 = &Q4{}
	q5 = &Q5{}
	q6 = &Q6{}
	q7 = &Q7{}
	q8 = &Q8{}
)

// ScaleM lists the 64 methods as method values on instances with Tag 0 (index 0 = target 1).
var ScaleM = []func(int) int{
	q1.M1, q1.M2, q1.M3, q1.M4, q1.M5, q1.M6, q1.M7, q1.M8,
	q2.M1, q2.M2, q2.M3, q2.M4, q2.M5, q2.M6, q2.M7, q2.M8,
	q3.M1, q3.M2, q3.M3, q3.M4, q3.M5, q3.M6, q3.M7, q3.M8,
	q4.M1, q4.M2, q4.M3, q4.M4, q4.M5, q4.M6, q4.M7, q4.M8,
	q5.M1, q5.M2, q5.M3, q5.M4, q5.M5, q5.M6, q5.M7, q5.M8,
	q6.M1, q6.M2, q6.M3, q6.M4, q6.M5, q6.M6, q6.M7, q6.M8,
	q7.M1, q7.M2, q7.M3, q7.M4, q7.M5, q7.M6, q7.M7, q7.M8,
	q8.M1, q8.M2, q8.M3, q8.M4, q8.M5, q8.M6, q8.M7, q8.M8,
}
