//go:build go1.18

// Package mz: struct / method zoo for spec/Method.tla (C06).
// Original behaviour of method number k: 100*k + a (+ the receiver's Tag so the receiver matters).
package mz

import "fmt"

//go:noinline
func w(i int) int {
	if i < -10000 {
		fmt.Println("never")
	}
	return i
}

// A: pointer receiver; method names that are prefixes of each other; one unexported.
type A struct {
	Tag int
	Pad [3]int
}

//go:noinline
func (p *A) Call(a int) int { return w(a) + 100 + p.Tag }

//go:noinline
func (p *A) Call2(a int) int { return w(a) + 200 + p.Tag }

//go:noinline
func (p *A) call(a int) int { return w(a) + 300 + p.Tag }

// CallLower reaches the unexported method.
func (p *A) CallLower(a int) int { return p.call(a) }

// callAll: a second unexported method of the same type whose name has the first one as prefix
//
//go:noinline
func (p *A) callAll(a int) int { return w(a) + 1200 + p.Tag }

// CallAllLower reaches it.
func (p *A) CallAllLower(a int) int { return p.callAll(a) }

// V: value receiver with fields.
type V struct {
	Tag int
	S   string
}

//go:noinline
func (v V) Call(a int) int { return w(a) + 400 + v.Tag }

//go:noinline
func (v V) Get(a int) int { return w(a) + 500 + v.Tag }

// u: unexported type, pointer receiver; E embeds A.
type u struct{ Tag int }

//go:noinline
func (p *u) Call(a int) int { return w(a) + 600 + p.Tag }

// NewU / CallU give other packages access to the unexported type.
func NewU(tag int) interface{} { return &u{tag} }
func CallU(x interface{}, a int) int { return x.(*u).Call(a) }

// UL is a stand-in with the layout of u for callbacks.
type UL struct{ Tag int }

type E struct {
	A
	Extra int
}

//go:noinline
func (e *E) Own(a int) int { return w(a) + 700 + e.Tag }

// G: generic type; instantiations over int, string (own shapes) and two pointer types (one shared shape).
type G[T any] struct {
	Tag int
	X   T
}

//go:noinline
func (g *G[T]) M(a int) int { return w(a) + 800 + g.Tag }

// W: a generic struct whose VALUE receiver is too wide for the argument registers (it is passed on the stack): the wrapper of an
// instantiation copies the receiver before it loads the dictionary and calls the shape body, so that call lies far from the
// wrapper's entry
type W[T any] struct {
	Tag int
	Pad [9]int
	X   T
}

//go:noinline
func (g W[T]) M(a int) int { return w(a) + 1300 + g.Tag + g.Pad[8] }

// N: a generic method whose body's FIRST call goes to another generic method of the same type (goom finds the shape body
// of an instantiation by following the first call of its wrapper - one hop, not two)
//
//go:noinline
func (g *G[T]) N(a int) int { return g.M(a) + 50 }

// M has a pointer-receiver method (mocked through Struct(&M{})) and a value-receiver method (mocked through Struct(M{})):
// one builder addresses the same struct type through both kinds of instance.
type M struct {
	Tag int
	Y   [2]int
}

//go:noinline
func (m *M) P(a int) int { return w(a) + 900 + m.Tag }

//go:noinline
func (m M) Q(a int) int { return w(a) + 1000 + m.Tag }
