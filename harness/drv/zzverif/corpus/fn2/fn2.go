//go:build go1.18

// Package fn2 has an unexported function with the same name as fn.dup and drv.dup (C12, Pkg override).
package fn2

import "fmt"

//go:noinline
func dup(a int) int {
	if a < -10000 {
		fmt.Println("never")
	}
	return a + 2200
}

func CallDup(a int) int { return dup(a) }

const Pkg = "github.com/tencent/goom/zzverif/corpus/fn2"

// dupS / Get: the same type and method names exist in fn and in the driver's package.
type dupS struct{ Tag int }

//go:noinline
func (p *dupS) Get(a int) int {
	if a < -10000 {
		fmt.Println("never")
	}
	return a + 2250 + p.Tag
}

var dupInst = &dupS{}

// CallDupM reaches (*dupS).Get of this package.
func CallDupM(a int) int { return dupInst.Get(a) }
