//go:build go1.18

// Package conv: one result function and one parameter function per declared kind of spec/ArgConv.tla.
package conv

import "fmt"

type S struct {
	A int
	B string
}

// SL has the identical layout of S under another name; SX the same size with another layout;
// SBig another size.
type SL struct {
	A int
	B string
}
type SX struct {
	A uint
	B [16]byte
}
type SBig struct {
	A int
	B string
	C int
}

//go:noinline
func w(i int) int {
	if i < -10000 {
		fmt.Println("never")
	}
	return i
}

//go:noinline
func RPtr() *S { w(1); return &S{-1, "orig"} }

//go:noinline
func RErr() error { w(1); return fmt.Errorf("orig") }

//go:noinline
func RAny() interface{} { w(1); return "orig" }

//go:noinline
func RSlice() []int { w(1); return []int{-1} }

//go:noinline
func RMap() map[string]int { w(1); return map[string]int{"orig": 1} }

//go:noinline
func RChan() chan int { w(1); return make(chan int) }

//go:noinline
func RFunc() func() int { w(1); return func() int { return -1 } }

//go:noinline
func RStruct() S { w(1); return S{-1, "orig"} }

//go:noinline
func RArr() [2]int { w(1); return [2]int{-1, -1} }

//go:noinline
func RInt() int { return w(1) - 2 }

//go:noinline
func RFloat() float64 { w(1); return -1.5 }

//go:noinline
func RStr() string { w(1); return "orig" }

//go:noinline
func RBool() bool { return w(1) == 2 }

//go:noinline
func PPtr(x *S) int { return w(-1) }

//go:noinline
func PErr(x error) int { return w(-1) }

//go:noinline
func PAny(x interface{}) int { return w(-1) }

//go:noinline
func PSlice(x []int) int { return w(-1) }

//go:noinline
func PMap(x map[string]int) int { return w(-1) }

//go:noinline
func PChan(x chan int) int { return w(-1) }

//go:noinline
func PFunc(x func() int) int { return w(-1) }

//go:noinline
func PStruct(x S) int { return w(-1) }

//go:noinline
func PArr(x [2]int) int { return w(-1) }

//go:noinline
func PInt(x int) int { return w(-1) }

//go:noinline
func PFloat(x float64) int { return w(-1) }

//go:noinline
func PStr(x string) int { return w(-1) }

//go:noinline
func PBool(x bool) int { return w(-1) }

// integer parameters of several kinds: conditions are usually written as plain constants (type int)
//
//go:noinline
func PI64(x int64) int { return w(-1) }

//go:noinline
func PU64(x uint64) int { return w(-1) }

//go:noinline
func PUint(x uint) int { return w(-1) }

//go:noinline
func PUptr(x uintptr) int { return w(-1) }

//go:noinline
func PI32(x int32) int { return w(-1) }

// H: a handle type - a struct with exactly ONE pointer field (reflect stores such a value directly in the interface word,
// unlike multi-word structs); HL has the same layout under another type (the "stand-in" of an unnameable type)
type H struct{ P *S }
type HL struct{ P *S }

//go:noinline
func RHandle() H { w(1); return H{} }

//go:noinline
func PHandle(x H) int { return w(-1) }

// variadic parameters of three kinds (the stub's conditions are compared with every element, one condition after the other)

//go:noinline
func PVInt(xs ...int) int { return w(len(xs)) - 1 }

//go:noinline
func PVStr(xs ...string) int { return w(len(xs)) - 1 }

//go:noinline
func PVPtr(xs ...*S) int { return w(len(xs)) - 1 }
