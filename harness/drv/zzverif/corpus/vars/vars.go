//go:build go1.18

// Package vars is the variable zoo for C08: for every type two exported variables (reached by
// pointer), two unexported ones (reached by "pkg.name"), accessors that read them from inside this
// package, and the concrete values bound to the abstract tokens of spec/VarMock.tla:
// "i" non-zero initial value, "z" zero value, "a"/"b" mock values.
package vars

import (
	"errors"
	"reflect"
)

func reflectPtr(p interface{}) uintptr { return reflect.ValueOf(p).Pointer() }

type S struct {
	A int
	B string
}

func fa() int { return 1 }
func fb() int { return 2 }
func fi() int { return 3 }

var (
	ErrI = errors.New("i")
	ErrA = errors.New("a")
	ErrB = errors.New("b")
	// reference-typed values: "a" has the same CONTENT as the initial value "i" and "b" the same content as ... "a", but each
	// is its own object - readers must observe the object that was set (identity), not an equal-looking one
	PI   = &S{9, "i"}
	PA   = &S{9, "i"}
	PB   = &S{9, "i"}
	MI   = map[string]int{"i": 9}
	MA   = map[string]int{"i": 9}
	MB   = map[string]int{"i": 9}
	SI   = []int{9, 9}
	SA   = []int{9, 9}
	SB   = []int{9, 9}
	CI   = make(chan int, 1)
	CA   = make(chan int, 2)
	CB   = make(chan int, 3)
)

// exported (by pointer)
var (
	Int1, Int2       int            = 9, 0
	Str1, Str2       string         = "i", ""
	F641, F642       float64        = 9.5, 0
	Bool1, Bool2     bool           = true, false
	Slice1, Slice2   []int          = SI, nil
	Map1, Map2       map[string]int = MI, nil
	Struct1, Struct2 S              = S{9, "i"}, S{}
	Ptr1, Ptr2       *S             = PI, nil
	Func1, Func2     func() int     = fi, nil
	Err1, Err2       error          = ErrI, nil
	ErrN1, ErrN2     error          = (*TErr)(nil), nil // an interface variable whose pre-mock value is a TYPED nil
	AnyN1, AnyN2     interface{}    = (*S)(nil), nil
	Any1, Any2       interface{}    = 9, nil
	Arr1, Arr2       [3]int         = [3]int{9, 9, 9}, [3]int{}
	Chan1, Chan2     chan int       = CI, nil
	U81, U82         uint8          = 9, 0
)

// unexported (by name)
var (
	int1, int2       int            = 9, 0
	str1, str2       string         = "i", ""
	f641, f642       float64        = 9.5, 0
	slice1, slice2   []int          = SI, nil
	map1, map2       map[string]int = MI, nil
	struct1, struct2 S              = S{9, "i"}, S{}
	ptr1, ptr2       *S             = PI, nil
	func1, func2     func() int     = fi, nil
	u81, u82         uint8          = 9, 0
)

// Val returns the concrete value for token tok ("i","z","a","b") of type class typ.
// For interface classes "z" is the untyped nil.
func Val(typ, tok string) interface{} {
	switch typ {
	case "int":
		return map[string]interface{}{"i": 9, "z": 0, "a": 1, "b": 2}[tok]
	case "str":
		return map[string]interface{}{"i": "i", "z": "", "a": "a", "b": "b"}[tok]
	case "f64":
		return map[string]interface{}{"i": 9.5, "z": 0.0, "a": 1.5, "b": 2.5}[tok]
	case "bool":
		return map[string]interface{}{"i": true, "z": false, "a": true, "b": false}[tok]
	case "slice":
		return map[string]interface{}{"i": SI, "z": []int(nil), "a": SA, "b": SB}[tok]
	case "map":
		return map[string]interface{}{"i": MI, "z": map[string]int(nil), "a": MA, "b": MB}[tok]
	case "struct":
		return map[string]interface{}{"i": S{9, "i"}, "z": S{}, "a": S{1, "a"}, "b": S{2, "b"}}[tok]
	case "ptr":
		return map[string]interface{}{"i": PI, "z": (*S)(nil), "a": PA, "b": PB}[tok]
	case "func":
		return map[string]interface{}{"i": fi, "z": (func() int)(nil), "a": fa, "b": fb}[tok]
	case "err":
		return map[string]interface{}{"i": ErrI, "z": nil, "a": ErrA, "b": ErrB}[tok]
	case "any":
		return map[string]interface{}{"i": 9, "z": nil, "a": "a", "b": S{2, "b"}}[tok]
	case "errn":
		return map[string]interface{}{"i": (*TErr)(nil), "z": nil, "a": (*UErr)(nil), "b": ErrB}[tok]
	case "anyn":
		return map[string]interface{}{"i": (*S)(nil), "z": nil, "a": map[string]int(nil), "b": []int(nil)}[tok]
	case "arr":
		return map[string]interface{}{"i": [3]int{9, 9, 9}, "z": [3]int{}, "a": [3]int{1, 0, 0}, "b": [3]int{2, 2, 0}}[tok]
	case "chan":
		return map[string]interface{}{"i": CI, "z": (chan int)(nil), "a": CA, "b": CB}[tok]
	case "u8":
		return map[string]interface{}{"i": uint8(9), "z": uint8(0), "a": uint8(1), "b": uint8(2)}[tok]
	}
	panic("vars.Val: " + typ)
}

// Ptr returns the pointer handed to Builder.Var for exported variable n (1 or 2) of class typ.
func Ptr(typ string, n int) interface{} {
	f := n == 1
	switch typ {
	case "int":
		if f {
			return &Int1
		}
		return &Int2
	case "str":
		if f {
			return &Str1
		}
		return &Str2
	case "f64":
		if f {
			return &F641
		}
		return &F642
	case "bool":
		if f {
			return &Bool1
		}
		return &Bool2
	case "slice":
		if f {
			return &Slice1
		}
		return &Slice2
	case "map":
		if f {
			return &Map1
		}
		return &Map2
	case "struct":
		if f {
			return &Struct1
		}
		return &Struct2
	case "ptr":
		if f {
			return &Ptr1
		}
		return &Ptr2
	case "func":
		if f {
			return &Func1
		}
		return &Func2
	case "err":
		if f {
			return &Err1
		}
		return &Err2
	case "any":
		if f {
			return &Any1
		}
		return &Any2
	case "errn":
		if f {
			return &ErrN1
		}
		return &ErrN2
	case "anyn":
		if f {
			return &AnyN1
		}
		return &AnyN2
	case "arr":
		if f {
			return &Arr1
		}
		return &Arr2
	case "chan":
		if f {
			return &Chan1
		}
		return &Chan2
	case "u8":
		if f {
			return &U81
		}
		return &U82
	}
	panic("vars.Ptr: " + typ)
}

// Read returns the current contents of variable n of class typ as seen by code of this package.
// ue selects the unexported twin.
func Read(typ string, n int, ue bool) interface{} {
	f := n == 1
	if ue {
		switch typ {
		case "int":
			if f {
				return int1
			}
			return int2
		case "str":
			if f {
				return str1
			}
			return str2
		case "f64":
			if f {
				return f641
			}
			return f642
		case "slice":
			if f {
				return slice1
			}
			return slice2
		case "map":
			if f {
				return map1
			}
			return map2
		case "struct":
			if f {
				return struct1
			}
			return struct2
		case "ptr":
			if f {
				return ptr1
			}
			return ptr2
		case "func":
			if f {
				return func1
			}
			return func2
		case "u8":
			if f {
				return u81
			}
			return u82
		}
		panic("vars.Read ue: " + typ)
	}
	switch typ {
	case "int":
		if f {
			return Int1
		}
		return Int2
	case "str":
		if f {
			return Str1
		}
		return Str2
	case "f64":
		if f {
			return F641
		}
		return F642
	case "bool":
		if f {
			return Bool1
		}
		return Bool2
	case "slice":
		if f {
			return Slice1
		}
		return Slice2
	case "map":
		if f {
			return Map1
		}
		return Map2
	case "struct":
		if f {
			return Struct1
		}
		return Struct2
	case "ptr":
		if f {
			return Ptr1
		}
		return Ptr2
	case "func":
		if f {
			return Func1
		}
		return Func2
	case "err":
		if f {
			return Err1
		}
		return Err2
	case "any":
		if f {
			return Any1
		}
		return Any2
	case "errn":
		if f {
			return ErrN1
		}
		return ErrN2
	case "anyn":
		if f {
			return AnyN1
		}
		return AnyN2
	case "arr":
		if f {
			return Arr1
		}
		return Arr2
	case "chan":
		if f {
			return Chan1
		}
		return Chan2
	case "u8":
		if f {
			return U81
		}
		return U82
	}
	panic("vars.Read: " + typ)
}

// Name is the "pkg.name" path of the unexported variable n of class typ.
func Name(typ string, n int) string {
	base := map[string]string{"int": "int", "str": "str", "f64": "f64", "slice": "slice", "map": "map",
		"struct": "struct", "ptr": "ptr", "func": "func", "u8": "u8"}[typ]
	if base == "" {
		panic("vars.Name: " + typ)
	}
	return "github.com/tencent/goom/zzverif/corpus/vars." + base + string(rune('0'+n))
}

// TErr, UErr: error types used for typed nil values behind an interface variable.
type TErr struct{}

func (*TErr) Error() string { return "TErr" }

type UErr struct{}

func (*UErr) Error() string { return "UErr" }

// Types lists the classes; UETypes those that also have an unexported twin.
var Types = []string{"int", "str", "f64", "bool", "slice", "map", "struct", "ptr", "func", "err", "any", "errn", "anyn", "arr", "chan", "u8"}
var UETypes = []string{"int", "str", "f64", "slice", "map", "struct", "ptr", "func", "u8"}

// Restore puts every variable of the zoo back to its initial contents.
func Restore() {
	Int1, Int2 = 9, 0
	Str1, Str2 = "i", ""
	F641, F642 = 9.5, 0
	Bool1, Bool2 = true, false
	Slice1, Slice2 = SI, nil
	Map1, Map2 = MI, nil
	Struct1, Struct2 = S{9, "i"}, S{}
	Ptr1, Ptr2 = PI, nil
	Func1, Func2 = fi, nil
	Err1, Err2 = ErrI, nil
	Any1, Any2 = 9, nil
	ErrN1, ErrN2 = (*TErr)(nil), nil
	AnyN1, AnyN2 = (*S)(nil), nil
	Arr1, Arr2 = [3]int{9, 9, 9}, [3]int{}
	Chan1, Chan2 = CI, nil
	U81, U82 = 9, 0
	int1, int2 = 9, 0
	str1, str2 = "i", ""
	f641, f642 = 9.5, 0
	slice1, slice2 = SI, nil
	map1, map2 = MI, nil
	struct1, struct2 = S{9, "i"}, S{}
	ptr1, ptr2 = PI, nil
	func1, func2 = fi, nil
	u81, u82 = 9, 0
}

// Addr is the true run-time address of the unexported variable n of class typ (taken with &).
func Addr(typ string, n int) uintptr {
	f := n == 1
	p := map[string][2]interface{}{"int": {&int1, &int2}, "str": {&str1, &str2}, "f64": {&f641, &f642}, "slice": {&slice1, &slice2},
		"map": {&map1, &map2}, "struct": {&struct1, &struct2}, "ptr": {&ptr1, &ptr2}, "func": {&func1, &func2}, "u8": {&u81, &u82}}[typ]
	if f {
		return reflectPtr(p[0])
	}
	return reflectPtr(p[1])
}

// SV: 64 int variables for the scale world (spec/Scale.tla, function instance bound to variables): SV[i] = 1000*(i+1).
var SV [64]int

// RestoreSV puts the original values back (the harness, not goom, between behaviours).
func RestoreSV() {
	for i := range SV {
		SV[i] = 1000 * (i + 1)
	}
}

func init() { RestoreSV() }
