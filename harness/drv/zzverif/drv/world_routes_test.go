//go:build go1.18

package drv

import (
	"fmt"

	mocker "github.com/tencent/goom"
	"github.com/tencent/goom/zzverif/corpus/fn"
)

// routesWorld binds spec/Routes.tla: one builder, the method (*fn.S).G reached through b.Struct(&fn.S{}).Method("G") (r1) and through
// the method expression b.Func((*fn.S).G) (r2). A route's handle is kept until it is cancelled.
type routesWorld struct {
	b *mocker.Builder
	h map[string]mocker.ExportedMocker
}

func (w *routesWorld) Name() string { return "routes" }
func (w *routesWorld) Begin() {
	theImage()
	w.b = mocker.Create()
	w.h = map[string]mocker.ExportedMocker{}
}
func (w *routesWorld) handle(r string) mocker.ExportedMocker {
	if w.h[r] == nil {
		if r == "r1" {
			w.h[r] = w.b.Struct(&fn.S{}).Method("G")
		} else {
			w.h[r] = w.b.Func((*fn.S).G)
		}
	}
	return w.h[r]
}
func (w *routesWorld) Do(st Step) string {
	return catch(func() {
		r, id := st.Str("r"), st.Int("id")
		switch st.Str("op") {
		case "Apply":
			w.handle(r).Apply(func(s *fn.S, a int) int { return 50000 + 100*id + a })
		case "Return":
			w.handle(r).Return(90000 + id)
		case "Cancel":
			w.handle(r).Cancel()
			delete(w.h, r)
		case "Reset":
			w.b.Reset()
			w.h = map[string]mocker.ExportedMocker{}
		}
	})
}
func (w *routesWorld) Observe(st Step) map[string]string {
	out := map[string]string{}
	var got int
	if p := catch(func() { got = (&fn.S{Tag: 7}).G(5) }); p != "" {
		out["!call"] = p
		return out
	}
	tok := fmt.Sprint("?", got)
	switch {
	case got == 2005: // work(5) + 2000: the original
		tok = "orig"
	case got >= 90000 && got < 90100:
		tok = fmt.Sprint("r:", got-90000)
	case got >= 50000 && got < 60000 && (got-50000)%100 == 5:
		tok = fmt.Sprint("cb:", (got-50000)/100)
	}
	out["!call"] = "ok"
	if tok != st.Str("exp") {
		out["!call"] = fmt.Sprintf("(*S).G(5): required %s (the most recent instruction), real %s", st.Str("exp"), tok)
	}
	im := theImage()
	r := im.funcs[fn.Pkg+".(*S).G"]
	out["!entry"] = "ok"
	if e := im.entryState(r[0]); e != st.Str("entry") {
		out["!entry"] = fmt.Sprintf("entry of (*S).G: required %s, real %s", st.Str("entry"), e)
	}
	var allowed []rng
	if st.Str("entry") == "J" {
		allowed = append(allowed, rng{r[0], r[0] + 13})
	}
	out["!image"] = im.outside(allowed)
	return out
}
func (w *routesWorld) End() string {
	catch(func() { w.b.Reset() })
	im := theImage()
	res := ""
	if s := im.outside(nil); s != "ok" {
		res = "image after the final Reset: " + s
		for _, d := range im.diff() {
			healText(d.lo, im.pristine(d.lo, int(d.hi-d.lo)))
		}
	}
	return res
}

func init() { worlds["routes"] = func() []World { return []World{&routesWorld{}} } }
