//go:build go1.18

package drv

import (
	"fmt"

	mocker "github.com/tencent/goom"
	"github.com/tencent/goom/zzverif/corpus/mz"
)

// scaleMWorld binds spec/Scale.tla (function instance) to 64 METHODS: 8 struct types x 8 methods, mocked by name in groups
// through one shared builder or a builder per method, cancelled one by one, reset; after every step every method is called
// and the image outside the mocked entries is checked.
type scaleMWorld struct {
	shared *mocker.Builder
	fresh  map[int]*mocker.Builder
}

func (w *scaleMWorld) Name() string { return "scale-method" }
func (w *scaleMWorld) Begin() {
	theImage()
	w.shared = mocker.Create()
	w.fresh = map[int]*mocker.Builder{}
}

func mockM[T any](b *mocker.Builder, name, kind string, v int) {
	var z T
	h := b.Struct(&z).Method(name)
	if kind == "apply" {
		h.Apply(func(p *T, a int) int { return v - 7 + a })
	} else {
		h.Return(v)
	}
}

func cancelM[T any](b *mocker.Builder, name string) {
	var z T
	b.Struct(&z).Method(name).Cancel()
}

var scaleMMock = []func(*mocker.Builder, string, string, int){mockM[mz.Q1], mockM[mz.Q2], mockM[mz.Q3], mockM[mz.Q4], mockM[mz.Q5], mockM[mz.Q6], mockM[mz.Q7], mockM[mz.Q8]}
var scaleMCancel = []func(*mocker.Builder, string){cancelM[mz.Q1], cancelM[mz.Q2], cancelM[mz.Q3], cancelM[mz.Q4], cancelM[mz.Q5], cancelM[mz.Q6], cancelM[mz.Q7], cancelM[mz.Q8]}

func (w *scaleMWorld) Do(st Step) string {
	return catch(func() {
		id := st.Int("id")
		name := func(i int) string { return fmt.Sprintf("M%d", (i-1)%8+1) }
		switch st.Str("op") {
		case "MockShared":
			for _, i := range maskIdx(st["is"]) {
				scaleMMock[(i-1)/8](w.shared, name(i), st.Str("kind"), id*100000+i*100+7)
			}
		case "MockFresh":
			for _, i := range maskIdx(st["is"]) {
				if w.fresh[i] == nil {
					w.fresh[i] = mocker.Create()
				}
				scaleMMock[(i-1)/8](w.fresh[i], name(i), st.Str("kind"), id*100000+i*100+7)
			}
		case "CancelShared":
			for _, i := range maskIdx(st["is"]) {
				scaleMCancel[(i-1)/8](w.shared, name(i))
			}
		case "ResetShared":
			w.shared.Reset()
		case "ResetFresh":
			for _, i := range maskIdx(st["is"]) {
				w.fresh[i].Reset()
			}
		case "CondStub", "SeqStub", "CallC", "CallQ": // (function-only operations of the shared behaviours)
		}
	})
}

func (w *scaleMWorld) Observe(st Step) map[string]string {
	out := map[string]string{"!scale": "ok", "!entries": "ok"}
	im := theImage()
	var allowed []rng
	p := catch(func() {
		for i0, want := range ints(st["exp"]) {
			i := i0 + 1
			r := mz.ScaleM[i0](7)
			got := -1
			if r == 1000*i+7 {
				got = 0
			} else if r >= 100000 && r%100000 == i*100+7 {
				got = r / 100000
			}
			if got != want && out["!scale"] == "ok" {
				out["!scale"] = fmt.Sprintf("method (*Q%d).M%d: required replacement %d (0 = original), real %d (returned %d)", i0/8+1, i0%8+1, want, got, r)
			}
			sym := fmt.Sprintf("github.com/tencent/goom/zzverif/corpus/mz.(*Q%d).M%d", i0/8+1, i0%8+1)
			rg, ok := im.funcs[sym]
			if !ok {
				panic("no symbol " + sym)
			}
			e := im.entryState(rg[0])
			if wantE := map[bool]string{true: "J", false: "P"}[want != 0]; e != wantE && out["!entries"] == "ok" {
				out["!entries"] = fmt.Sprintf("entry of (*Q%d).M%d: required %s, real %s", i0/8+1, i0%8+1, wantE, e)
			}
			if want != 0 {
				allowed = append(allowed, rng{rg[0], rg[0] + 13})
			}
		}
	})
	if p != "" {
		out["!scale"] = "calling the methods: " + p
	}
	out["!image"] = im.outside(allowed)
	return out
}

func (w *scaleMWorld) End() string {
	catch(func() { w.shared.Reset() })
	for _, b := range w.fresh {
		catch(func() { b.Reset() })
	}
	im := theImage()
	res := ""
	if s := im.outside(nil); s != "ok" {
		res = "image after the final resets: " + s
		for _, d := range im.diff() {
			healText(d.lo, im.pristine(d.lo, int(d.hi-d.lo)))
		}
	}
	return res
}

func init() { worlds["scale-method"] = func() []World { return []World{&scaleMWorld{}} } }
