//go:build go1.18

package drv

import (
	"bufio"
	"encoding/json"
	"os"
	"testing"

	mocker "github.com/tencent/goom"
	"github.com/tencent/goom/zzverif/corpus/fn"
)

// deep consumes a small frame per level (small frames use the cheap stack check that lets SP dip below
// the guard by up to 128 bytes, so some depth leaves the callee with "low" headroom)
//
//go:noinline
func deep(n int, f func() int) int {
	var pad [24]byte
	pad[n%24] = byte(n)
	if n <= 0 {
		return f() + int(pad[0])*0
	}
	return deep(n-1, f) + int(pad[1])*0
}

// TestVerifOriginDepth: a target mocked with an origin placeholder is called (and its placeholder is
// called directly) from fresh goroutines at swept stack depths, so that the stack check of the relocated
// prologue sees every headroom. Events: {via, kind, depth, res, mocks}.
func TestVerifOriginDepth(t *testing.T) {
	out := os.Getenv("VERIF_OUT")
	if out == "" {
		t.Skip()
	}
	quiet()
	baseLogging()
	of, _ := os.Create(out)
	defer of.Close()
	bw := bufio.NewWriter(of)
	defer bw.Flush()
	enc := json.NewEncoder(bw)
	depths := envIntD("VERIF_DEPTHS", 400)
	for _, kind := range []string{"func", "method", "uefunc", "uemethod"} {
		w := &lifeWorld{kind: kind}
		w.Begin()
		mocks := 0
		var cb interface{}
		if w.isMethod() {
			cb = func(s *fn.S, a int) int { mocks++; return 3000 + w.callOrigin("f", a) }
		} else {
			cb = func(a int) int { mocks++; return 3000 + w.callOrigin("f", a) }
		}
		if p := catch(func() {
			if kind == "uefunc" || kind == "uemethod" {
				w.ueHandle("b1", "f").Origin(w.originVar("f")).Apply(cb)
			} else {
				w.handle("b1", "f").Origin(w.originVar("f")).Apply(cb)
			}
		}); p != "" {
			enc.Encode(map[string]interface{}{"via": "apply", "kind": kind, "depth": 0, "res": p, "mocks": 0})
			continue
		}
		for _, via := range []string{"mock", "ph"} {
			for d := 0; d < depths; d++ {
				done := make(chan [2]int, 1)
				go func() {
					mocks = 0
					var r int
					p := catch(func() {
						r = deep(d, func() int {
							if via == "mock" {
								return w.call("f", 5)
							}
							return w.callOrigin("f", 5)
						})
					})
					if p != "" {
						r = -999
					}
					done <- [2]int{r, mocks}
				}()
				v := <-done
				enc.Encode(map[string]interface{}{"via": via, "kind": kind, "depth": d, "res": token("f", 5, v[0]), "mocks": v[1]})
			}
		}
		w.End()
	}
	// a target with a large frame: its stack check fails while its callers still had room
	{
		theImage()
		b := mocker.Create()
		mocks := 0
		b.Func(fn.Big).Origin(&fn.OBig).Apply(func(a int) int { mocks++; return 3000 + fn.OBig(a) })
		tok := func(r int) string {
			switch r {
			case 4005:
				return "orig"
			case 7005:
				return "cbo"
			case 10005:
				return "cbo-twice"
			}
			return "?"
		}
		for _, via := range []string{"mock", "ph"} {
			for d := 0; d < depths; d++ {
				done := make(chan [2]int, 1)
				go func() {
					mocks = 0
					var r int
					p := catch(func() {
						r = deep(d, func() int {
							if via == "mock" {
								return fn.Big(5)
							}
							return fn.OBig(5)
						})
					})
					if p != "" {
						r = -999
					}
					done <- [2]int{r, mocks}
				}()
				v := <-done
				enc.Encode(map[string]interface{}{"via": via, "kind": "func-bigframe", "depth": d, "res": tok(v[0]), "mocks": v[1]})
			}
		}
		b.Reset()
		im := theImage()
		for _, df := range im.diff() {
			healText(df.lo, im.pristine(df.lo, int(df.hi-df.lo)))
		}
		fn.OBig = fn.PhBig
	}
}

func envIntD(k string, d int) int { return envIntOr(k, d) }
