//go:build go1.18

package drv

import (
	"bufio"
	"debug/elf"
	"debug/gosym"
	"encoding/json"
	"fmt"
	mocker "github.com/tencent/goom"
	"github.com/tencent/goom/zzverif/corpus/fn"
	"os"
	"runtime"
	"strings"
	"testing"

	"github.com/tencent/goom/internal/unexports2"
	"github.com/tencent/goom/zzverif/corpus/vars"
)

// TestVerifSymLookup: every function of this binary's pclntab and every variable of the zoo is looked up by
// name; truth comes from the runtime (FuncForPC / &v). VERIF_MODE names the link mode the binary was built in.
func TestVerifSymLookup(t *testing.T) {
	out, mode := os.Getenv("VERIF_OUT"), os.Getenv("VERIF_MODE")
	if out == "" {
		t.Skip()
	}
	quiet()
	of, _ := os.Create(out)
	defer of.Close()
	bw := bufio.NewWriter(of)
	defer bw.Flush()
	enc := json.NewEncoder(bw)
	functab, vartab := false, false
	if fe, err := elf.Open(func() string { p, _ := os.Executable(); return p }()); err == nil {
		functab = fe.Section(".gopclntab") != nil && fe.Section(".text") != nil
		if syms, err := fe.Symbols(); err == nil && len(syms) > 0 {
			vartab = true
		}
		fe.Close()
	}
	emit := func(kind, nc, name string, found bool, delta int64) {
		if delta > 1<<30 || delta < -(1<<30) {
			delta = 1 << 30 // TLC integers are 32 bit; any non-zero delta is a wrong address
		}
		enc.Encode(map[string]interface{}{"mode": mode, "kind": kind, "nc": nc, "name": name, "found": found, "delta": delta,
			"functab": functab, "vartab": vartab})
	}
	lookupF := func(name string) (addr uintptr, found bool) {
		defer func() {
			if recover() != nil {
				found = false
			}
		}()
		a, err := unexports2.FindFuncByName(name)
		return a, err == nil
	}
	lookupV := func(name string) (addr uintptr, found bool) {
		defer func() {
			if recover() != nil {
				found = false
			}
		}()
		a, err := unexports2.FindVarByName(name)
		return a, err == nil
	}
	if os.Getenv("VERIF_ORDER") == "varfirst" {
		// the very first by-name lookup of the process is a VARIABLE (the answers must not depend on the order)
		lookupV("github.com/tencent/goom/zzverif/corpus/vars.int1")
	}
	// function names + truth: our own reading of the pclntab gives names; the runtime gives the address
	exe, _ := os.Executable()
	f, err := elf.Open(exe)
	if err != nil {
		t.Fatal(err)
	}
	var names []string
	truths := map[string]uintptr{}
	present := map[string]bool{}
	var sect *elf.Section
	for _, s := range f.Sections {
		if strings.HasSuffix(s.Name, ".gopclntab") {
			sect = s
		}
	}
	text := f.Section(".text")
	if sect != nil {
		data, _ := sect.Data()
		if tab, err := gosym.NewTable(nil, gosym.NewLineTable(data, text.Addr)); err == nil {
			// slide of this process (PIE) from a known function
			self := runtimeEntry("github.com/tencent/goom/zzverif/drv.TestVerifSymLookup")
			var slide int64
			for _, fn := range tab.Funcs {
				if fn.Name == "github.com/tencent/goom/zzverif/drv.TestVerifSymLookup" {
					slide = int64(self) - int64(fn.Entry)
				}
			}
			for _, fn := range tab.Funcs {
				truth := uintptr(int64(fn.Entry) + slide)
				rf := runtime.FuncForPC(truth)
				if rf == nil || rf.Entry() != truth || rf.Name() != fn.Name {
					continue // the runtime does not confirm this entry (e.g. duplicated names): no truth, no record
				}
				if present[fn.Name] {
					continue
				}
				present[fn.Name] = true
				names = append(names, fn.Name)
				truths[fn.Name] = truth
				a, ok := lookupF(fn.Name)
				emit("func", "present", fn.Name, ok, int64(a)-int64(truth))
			}
		}
	}
	// absent and near-miss names
	for i, n := range names {
		if i%40 != 0 {
			continue
		}
		for _, bad := range []string{n + "x", n[:len(n)-1], strings.ToUpper(n[:1]) + n[1:], n + "[...]", "x" + n, strings.Replace(n, ".", "..", 1)} {
			if present[bad] || bad == "" {
				continue
			}
			a, ok := lookupF(bad)
			emit("func", "absent", bad, ok, int64(a))
		}
	}
	// the answers must not depend on what was looked up before: after the absent names and at the very end, a sample of
	// the present functions is looked up again, in reverse order, each right after a miss on a near-miss of its name
	again := func() {
		for i := len(names) - 1; i >= 0; i -= 7 {
			n := names[i]
			lookupF(n + "x")
			a, ok := lookupF(n)
			emit("func", "present", n, ok, int64(a)-int64(truths[n]))
		}
	}
	again()
	defer again()
	for _, typ := range vars.UETypes {
		for n := 1; n <= 2; n++ {
			name := vars.Name(typ, n)
			a, ok := lookupV(name)
			emit("var", "present", name, ok, int64(a)-int64(vars.Addr(typ, n)))
			for _, bad := range []string{name + "x", name[:len(name)-1], strings.Replace(name, "vars.", "vars.X", 1)} {
				a, ok := lookupV(bad)
				emit("var", "absent", bad, ok, int64(a))
			}
		}
	}
	// through the PUBLIC API, every name asked for TWICE (what a first lookup leaves behind must not change the answer of the
	// second): Builder.UnExportedVar for present and absent variables, Builder.ExportFunc(...).As for absent functions
	api := mocker.Create()
	defer api.Reset()
	for _, typ := range vars.UETypes {
		name := vars.Name(typ, 1)
		for _, nm := range []struct{ n, nc string }{{name, "present"}, {name + "zz", "absent"}, {strings.Replace(name, "vars.", "varz.", 1), "absent"}} {
			for k := 0; k < 2; k++ {
				found := catch(func() { api.UnExportedVar(nm.n) }) == ""
				if nm.nc == "present" && !(functab && vartab) {
					continue // (no ELF symbols in this build: the requirement for present variables is decided by the records above)
				}
				emit("var", nm.nc, nm.n+" (UnExportedVar, lookup "+fmt.Sprint(k+1)+")", found, 0)
			}
		}
	}
	for k := 0; k < 2; k++ {
		found := catch(func() { api.Pkg(fn.Pkg).ExportFunc("nopeNope").As(func(int) int { return 0 }) }) == ""
		emit("func", "absent", fn.Pkg+".nopeNope (ExportFunc.As, lookup "+fmt.Sprint(k+1)+")", found, 0)
	}
}

func runtimeEntry(name string) uintptr {
	pc, _, _, _ := runtime.Caller(1)
	if f := runtime.FuncForPC(pc); f != nil && f.Name() == name {
		return f.Entry()
	}
	return 0
}
