//go:build go1.18

package drv

import (
	"reflect"

	mocker "github.com/tencent/goom"
	"github.com/tencent/goom/zzverif/corpus/vars"
)

// varWorld binds x1,x2,x3 of spec/VarMock.tla to variables of one type class.
// x1 -> variable 1 (initial "i"), x2 -> variable 2 (initial "z"), x3 -> variable 1 of a second
// class (int, or str when the world's own class is int) so two builders never share a variable.
type varWorld struct {
	typ string
	ue  bool // address the variable by "pkg.name"
	b   map[string]*mocker.Builder
	h   map[string]mocker.VarMock // value the last lookup returned, per builder/variable (kept handles)
	via string
}

func (w *varWorld) Name() string {
	if w.ue {
		return "var/ue/" + w.typ
	}
	return "var/" + w.typ
}

func (w *varWorld) bind(x string) (string, int) {
	switch x {
	case "x1":
		return w.typ, 1
	case "x2":
		return w.typ, 2
	}
	if w.typ == "int" {
		return "str", 1
	}
	return "int", 1
}

func (w *varWorld) builder(b string) *mocker.Builder {
	if w.b[b] == nil {
		w.b[b] = mocker.Create()
	}
	return w.b[b]
}

func (w *varWorld) Begin() {
	w.b = map[string]*mocker.Builder{}
	w.h = map[string]mocker.VarMock{}
}

func (w *varWorld) mock(b, x string) mocker.VarMock {
	if w.via == "held" {
		if h, ok := w.h[b+"/"+x]; ok {
			return h
		}
	}
	typ, n := w.bind(x)
	var h mocker.VarMock
	if w.ue {
		h = w.builder(b).UnExportedVar(vars.Name(typ, n))
	} else {
		h = w.builder(b).Var(vars.Ptr(typ, n))
	}
	w.h[b+"/"+x] = h
	return h
}

func (w *varWorld) Do(st Step) string {
	return catch(func() {
		w.via = st.Str("via")
		switch st.Str("op") {
		case "VarSet":
			typ, _ := w.bind(st.Str("x"))
			w.mock(st.Str("b"), st.Str("x")).Set(vars.Val(typ, st.Str("v")))
		case "VarApply":
			typ, _ := w.bind(st.Str("x"))
			v := vars.Val(typ, st.Str("v"))
			// callback of the variable's own type: func() T
			var elem reflect.Type
			if w.ue {
				elem = reflect.TypeOf(vars.Ptr(typ, 1)).Elem()
			} else {
				elem = reflect.TypeOf(vars.Ptr(typ, 1)).Elem()
			}
			ft := reflect.FuncOf(nil, []reflect.Type{elem}, false)
			cb := reflect.MakeFunc(ft, func([]reflect.Value) []reflect.Value {
				rv := reflect.New(elem).Elem()
				if v != nil {
					rv.Set(reflect.ValueOf(v))
				}
				return []reflect.Value{rv}
			})
			w.mock(st.Str("b"), st.Str("x")).Apply(cb.Interface())
		case "VarCancel":
			w.mock(st.Str("b"), st.Str("x")).Cancel()
		case "Reset":
			w.builder(st.Str("b")).Reset()
		default:
			panic("varWorld: unknown op " + st.Str("op"))
		}
	})
}

func same(typ string, a, b interface{}) bool {
	switch typ {
	case "func", "map", "slice", "chan", "ptr":
		va, vb := reflect.ValueOf(a), reflect.ValueOf(b)
		if !va.IsValid() || !vb.IsValid() {
			return va.IsValid() == vb.IsValid()
		}
		if va.IsNil() || vb.IsNil() {
			return va.IsNil() == vb.IsNil()
		}
		if va.Pointer() != vb.Pointer() {
			return false
		}
		if typ == "slice" {
			return va.Len() == vb.Len()
		}
		return true
	case "err", "any", "errn", "anyn":
		if a == nil || b == nil {
			return a == nil && b == nil
		}
		return reflect.TypeOf(a) == reflect.TypeOf(b) && reflect.DeepEqual(a, b)
	}
	return reflect.DeepEqual(a, b)
}

func (w *varWorld) token(x string) string {
	typ, n := w.bind(x)
	cur := vars.Read(typ, n, w.ue)
	// also read through the pointer: both readers must agree
	if !w.ue {
		direct := reflect.ValueOf(vars.Ptr(typ, n)).Elem().Interface()
		if !same(typ, cur, direct) {
			return "readers-disagree"
		}
	}
	for _, tok := range []string{"i", "z", "a", "b"} {
		if same(typ, cur, vars.Val(typ, tok)) {
			// "bool" has only two values: a==i, b==z; report the token the spec can mean
			return tok
		}
	}
	return "?"
}

func (w *varWorld) Observe(st Step) map[string]string {
	out := map[string]string{}
	for x, want := range st.Obs() {
		got := w.token(x)
		typ, _ := w.bind(x)
		if typ == "bool" { // tokens collapse: i=a=true, z=b=false
			t := map[string]string{"i": "T", "a": "T", "z": "F", "b": "F"}
			if t[got] == t[want] {
				got = want
			}
		}
		out[x] = got
	}
	return out
}

func (w *varWorld) End() string {
	for _, b := range w.b {
		catch(func() { b.Reset() })
	}
	vars.Restore() // a failed behaviour must not poison the next one
	return ""
}

func init() {
	worlds["var"] = func() []World {
		var ws []World
		for _, t := range vars.Types {
			ws = append(ws, &varWorld{typ: t})
		}
		for _, t := range vars.UETypes {
			ws = append(ws, &varWorld{typ: t, ue: true})
		}
		return ws
	}
}
