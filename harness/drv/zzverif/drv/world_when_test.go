//go:build go1.18

package drv

import (
	"fmt"
	"os"
	"strings"

	mocker "github.com/tencent/goom"
	"github.com/tencent/goom/arg"
	"github.com/tencent/goom/zzverif/corpus/sig"
)

// whenWorld binds spec/When.tla (one signature class per run, VERIF_SIG) to the corpus target.
type whenWorld struct {
	sig string
	b   *mocker.Builder
	wh  *mocker.When
}

func (w *whenWorld) Name() string { return "when/" + w.sig }
func (w *whenWorld) Begin()       { w.b = mocker.Create(); w.wh = nil; curSig = w.sig }
func (w *whenWorld) End() string {
	catch(func() { w.b.Reset() })
	return ""
}

func (w *whenWorld) handle() mocker.ExportedMocker {
	switch w.sig {
	case "f1":
		return w.b.Func(sig.F1)
	case "f2":
		return w.b.Func(sig.F2)
	case "v0":
		return w.b.Func(sig.V0)
	case "v1":
		return w.b.Func(sig.V1)
	case "v2":
		return w.b.Func(sig.V2)
	case "m1":
		return w.b.Struct(&sig.S{}).Method("M1")
	case "mv":
		return w.b.Struct(&sig.S{}).Method("MV")
	case "n1":
		return w.b.Func(sig.N1)
	case "t2":
		return w.b.Func(sig.T2)
	case "tv":
		return w.b.Func(sig.TV)
	}
	panic("sig " + w.sig)
}

// curSig: the signature class of the run (typed classes map the spec's value tokens 0, 1, 2 to typed values by position)
var curSig string

var strTok = []string{"", "a", "bb"}

// typedVal: the value of token v at argument position pos (0-based) for the current signature class; every call makes
// fresh pointers, so that pointer conditions are compared by pointee
func typedVal(v, pos int) interface{} {
	switch curSig {
	case "t2":
		if pos == 0 {
			return strTok[v]
		}
		if v == 0 {
			return (*sig.P)(nil)
		}
		return &sig.P{N: v, S: strTok[v]}
	case "tv":
		return strTok[v]
	}
	return v
}

func expr(e interface{}, pos int) interface{} {
	m := e.(map[string]interface{})
	switch m["k"] {
	case "val":
		return typedVal(int(m["v"].(float64)), pos)
	case "any":
		return arg.Any()
	case "in":
		var vs []interface{}
		for _, x := range m["s"].([]interface{}) {
			vs = append(vs, typedVal(int(x.(float64)), pos))
		}
		return arg.In(vs...)
	}
	panic("expr")
}

func exprs(l interface{}) []interface{} {
	var out []interface{}
	for i, e := range l.([]interface{}) {
		out = append(out, expr(e, i))
	}
	return out
}

func (w *whenWorld) Do(st Step) string {
	return catch(func() {
		switch st.Str("op") {
		case "Default":
			w.wh = w.handle().Return(9000 + st.Int("r"))
		case "When":
			var rets []interface{}
			if w.sig != "n1" {
				rets = []interface{}{9000 + st.Int("r")}
			}
			w.wh = w.handle().When(exprs(st["exprs"])...).Return(rets...)
		case "In":
			var tuples []interface{}
			for _, t := range st["tuples"].([]interface{}) {
				es := exprs(t)
				if len(es) == 1 && !strings.Contains(w.sig, "v") {
					tuples = append(tuples, es[0])
				} else {
					tuples = append(tuples, es)
				}
			}
			var rets []interface{}
			if w.sig != "n1" {
				rets = []interface{}{9000 + st.Int("r")}
			}
			w.wh = w.wh.In(tuples...).Return(rets...)
		case "Matches":
			var pairs []arg.Pair
			for _, pi := range st["pairs"].([]interface{}) {
				pm := pi.(map[string]interface{})
				es := exprs(pm["exprs"])
				var a interface{} = es
				if len(es) == 1 && !strings.Contains(w.sig, "v") {
					a = es[0]
				}
				pr := arg.Pair{Args: a, Return: 9000 + int(pm["r"].(float64))}
				if w.sig == "n1" {
					pr.Return = []interface{}{}
				}
				pairs = append(pairs, pr)
			}
			w.wh = w.wh.Matches(pairs...)
		case "CallAll":
		default:
			panic("whenWorld op " + st.Str("op"))
		}
	})
}

func (w *whenWorld) call(fixed, tail []int) int {
	switch w.sig {
	case "f1":
		return sig.F1(fixed[0])
	case "f2":
		return sig.F2(fixed[0], fixed[1])
	case "v0":
		return sig.V0(tail...)
	case "v1":
		return sig.V1(fixed[0], tail...)
	case "v2":
		return sig.V2(fixed[0], fixed[1], tail...)
	case "m1":
		return (&sig.S{Tag: 3}).M1(fixed[0])
	case "mv":
		return (&sig.S{Tag: 3}).MV(fixed[0], tail...)
	case "t2":
		return sig.T2(typedVal(fixed[0], 0).(string), typedVal(fixed[1], 1).(*sig.P))
	case "tv":
		var xs []string
		for _, t := range tail {
			xs = append(xs, strTok[t])
		}
		return sig.TV(strTok[fixed[0]], xs...)
	case "n1":
		before := sig.N1Ran
		sig.N1(fixed[0])
		if sig.N1Ran != before {
			return -1 // the original ran
		}
		return -2
	}
	panic("sig")
}

func (w *whenWorld) Observe(st Step) map[string]string {
	out := map[string]string{}
	if st.Str("op") != "CallAll" {
		return out
	}
	for _, c := range st["calls"].([]interface{}) {
		m := c.(map[string]interface{})
		fixed, tail := ints(m["fixed"]), ints(m["tail"])
		want := m["res"].(string)
		var res int
		p := catch(func() { res = w.call(fixed, tail) })
		got := ""
		switch {
		case p != "" && strings.Contains(p, "no suitable condition"):
			got = "panic:nocond"
		case p != "":
			got = p
		case res == -2:
			got = "r:none"
		case res == -1:
			got = "orig"
		case res >= 9000 && res < 9100:
			got = fmt.Sprintf("r:%d", res-9000)
		default:
			got = fmt.Sprintf("?%d", res)
		}
		if got != want {
			out["!call"] = fmt.Sprintf("call(fixed=%v tail=%v): required %s, real %s", fixed, tail, want, got)
			return out
		}
	}
	out["!call"] = "ok"
	return out
}

func init() {
	worlds["when"] = func() []World { return []World{&whenWorld{sig: os.Getenv("VERIF_SIG")}} }
}
