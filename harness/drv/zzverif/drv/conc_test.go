//go:build go1.18 && verif

package drv

import (
	"bufio"
	"encoding/json"
	"fmt"
	"math/rand"
	"os"
	"runtime"
	"strconv"
	"strings"
	"sync"
	"sync/atomic"
	"testing"
	"time"

	mocker "github.com/tencent/goom"
	"github.com/tencent/goom/internal/bytecode/memory"
	"github.com/tencent/goom/internal/patch"
	"github.com/tencent/goom/zzverif/corpus/fn"
	"github.com/tencent/goom/zzverif/corpus/sig"
)

func goid() int {
	var buf [64]byte
	n := runtime.Stack(buf[:], false)
	f := strings.Fields(string(buf[:n]))
	if len(f) >= 2 {
		id, _ := strconv.Atoi(f[1])
		return id
	}
	return 0
}

type concEv struct {
	Seq int64  `json:"seq"`
	G   int    `json:"g"`
	Ev  string `json:"ev"`
	A   uint64 `json:"-"`
	Ok  bool   `json:"ok"`
	Got int    `json:"got,omitempty"` // result of a call that was not as required
}

// TestVerifConcStress: N mocker goroutines (own builder, own target, targets adjacent in one code page) apply,
// re-stub and reset in a loop while M callers hammer a steadily mocked target whose callback calls the origin
// placeholder. Hook events are recorded inside the critical sections; callers' results are part of the trace.
func TestVerifConcStress(t *testing.T) {
	out := os.Getenv("VERIF_OUT")
	if out == "" {
		t.Skip()
	}
	quiet()
	baseLogging() // VERIF_LOG=debug: the same stress with goom's debug interceptor around every replacement (C19)
	rounds, iters, ncall := envIntOr("VERIF_ROUNDS", 50), envIntOr("VERIF_ITERS", 3), envIntOr("VERIF_CALLERS", 3)
	rng := rand.New(rand.NewSource(int64(envIntOr("VERIF_SEED", 1))))
	of, _ := os.Create(out)
	defer of.Close()
	bw := bufio.NewWriterSize(of, 1<<20)
	defer bw.Flush()
	enc := json.NewEncoder(bw)
	im := theImage()

	var seq int64
	var mu sync.Mutex
	var evs []concEv
	gmap := map[int]int{}
	rec := func(point string, a, b uintptr) {
		e := concEv{Seq: atomic.AddInt64(&seq, 1), G: goid(), Ev: point, A: uint64(a), Ok: true}
		mu.Lock()
		evs = append(evs, e)
		mu.Unlock()
	}
	patch.VerifHook = rec
	memory.VerifHook = rec
	defer func() { patch.VerifHook, memory.VerifHook = nil, nil }()

	// steady target: method (*S).H mocked once with an origin-calling callback
	steady := mocker.Create()
	steady.Struct(&fn.S{}).Method("H").Origin(&fn.OMH).Apply(func(s *fn.S, a int) int { return 3000 + fn.OMH(s, a) })
	// a second steady target: a function stubbed with one CONDITION per caller (When(arg).Return(7000+arg)) - the matchers of one
	// stub are shared by all its callers, and every caller must be answered according to its own argument
	wh := steady.Func(sig.F1).Return(-1)
	for k := 0; k < 16; k++ {
		wh = wh.When(5 + k).Return(7000 + 5 + k)
	}
	mu.Lock()
	evs = evs[:0] // the steady mock's own events are not part of the rounds
	mu.Unlock()

	type tgt struct {
		f    func(int) int
		def  interface{}
		orig int
		gen  bool // instantiation of a generic function (no parameters)
	}
	tgts := []tgt{{fn.F, fn.F, 1000, false}, {fn.G, fn.G, 2000, false}, {fn.H, fn.H, 3000, false},
		{func(int) int { return fn.Gen[int]() }, fn.Gen[int], 4000, true}}
	for r := 0; r < rounds; r++ {
		// a round takes milliseconds; one that does not finish is a deadlock between builders (dump and give up)
		wd := time.AfterFunc(time.Duration(envIntOr("VERIF_ROUND_S", 60))*time.Second, func() {
			buf := make([]byte, 1<<20)
			n := runtime.Stack(buf, true)
			fmt.Fprintf(os.Stderr, "VERIF-HANG round %d did not reach quiescence\n%s\n", r, buf[:n])
			os.Exit(3)
		})
		var wg sync.WaitGroup
		stop := int32(0)
		yields := make([][]int, len(tgts))
		for i := range yields {
			for j := 0; j < iters*4; j++ {
				yields[i] = append(yields[i], rng.Intn(3))
			}
		}
		for i, tg := range tgts {
			wg.Add(1)
			go func(i int, tg tgt) {
				defer wg.Done()
				mu.Lock()
				gmap[goid()] = i + 1
				mu.Unlock()
				me := goid()
				call := func(want int) {
					got := tg.f(5)
					e := concEv{Seq: atomic.AddInt64(&seq, 1), G: me, Ev: "call", Ok: got == want}
					if got != want {
						e.Got = got
					}
					mu.Lock()
					evs = append(evs, e)
					mu.Unlock()
				}
				b := mocker.Create()
				for it := 0; it < iters; it++ {
					for y := 0; y < yields[i][it*4]; y++ {
						runtime.Gosched()
					}
					if tg.gen {
						b.Func(tg.def).Apply(func() int { return 5000 + 100*(i+1) + 5 })
					} else {
						b.Func(tg.def).Apply(func(a int) int { return 5000 + 100*(i+1) + a })
					}
					call(5000 + 100*(i+1) + 5)
					b.Func(tg.def).Return(9000 + i)
					call(9000 + i)
					for y := 0; y < yields[i][it*4+1]; y++ {
						runtime.Gosched()
					}
					b.Reset()
					call(tg.orig + 5)
				}
			}(i, tg)
		}
		var cwg sync.WaitGroup
		for c := 0; c < ncall; c++ {
			cwg.Add(1)
			go func(c int) {
				defer cwg.Done()
				me := goid()
				s := &fn.S{Tag: 1}
				arg := 5 + c // every caller passes its own argument and must get its own result back
				for atomic.LoadInt32(&stop) == 0 {
					got := s.H(arg)
					if got == 9000+arg {
						// 3000 + (3000 + original): the origin placeholder re-entered the mock (known finding F5, C03)
						e := concEv{Seq: atomic.AddInt64(&seq, 1), G: me, Ev: "call-f5", Ok: true}
						mu.Lock()
						evs = append(evs, e)
						mu.Unlock()
						continue
					}
					if got != 6000+arg {
						e := concEv{Seq: atomic.AddInt64(&seq, 1), G: me, Ev: "call", Ok: false, Got: got}
						mu.Lock()
						evs = append(evs, e)
						mu.Unlock()
						return
					}
					if got2 := sig.F1(arg); got2 != 7000+arg {
						e := concEv{Seq: atomic.AddInt64(&seq, 1), G: me, Ev: "call", Ok: false, Got: got2}
						mu.Lock()
						evs = append(evs, e)
						mu.Unlock()
						return
					}
					runtime.Gosched()
				}
				e := concEv{Seq: atomic.AddInt64(&seq, 1), G: me, Ev: "call", Ok: true}
				mu.Lock()
				evs = append(evs, e)
				mu.Unlock()
			}(c)
		}
		// one more builder keeps issuing an instruction that goom REJECTS inside the patch step (Origin on a target whose
		// entry cannot be relocated): the rejection path must respect the same locks as the successful one
		wg.Add(1)
		go func() {
			defer wg.Done()
			rb := mocker.Create()
			for it := 0; it < iters; it++ {
				catch(func() {
					rb.Func(fn.Loop).Origin(&fn.OLoop).Apply(func(a int) int { return 3000 + fn.OLoop(a) })
				})
				runtime.Gosched()
			}
			if fn.Loop(5) != 5 {
				e := concEv{Seq: atomic.AddInt64(&seq, 1), G: goid(), Ev: "call", Ok: false, Got: fn.Loop(5)}
				mu.Lock()
				evs = append(evs, e)
				mu.Unlock()
			}
		}()
		wg.Wait()
		atomic.StoreInt32(&stop, 1)
		cwg.Wait()
		wd.Stop()
		// quiescence: only the steady target's entry and its placeholder may differ from the pristine image
		sym := fn.Pkg + ".(*S).H"
		ph := fn.Pkg + ".PhMH"
		f1 := sig.Pkg + ".F1"
		allowed := []rng2{{im.funcs[sym][0], im.funcs[sym][0] + 13}, {im.funcs[ph][0], im.funcs[ph][1]}, {im.funcs[f1][0], im.funcs[f1][0] + 13}}
		okq := true
		for _, d := range im.diff() {
			in := false
			for _, a := range allowed {
				if d.lo >= a.lo && d.hi <= a.hi {
					in = true
				}
			}
			okq = okq && in
		}
		okq = okq && im.perms() == "ok"
		mu.Lock()
		// order by sequence number, renumber goroutines
		byseq := make([]concEv, len(evs))
		copy(byseq, evs)
		evs = evs[:0]
		mu.Unlock()
		sortEvs(byseq)
		for _, e := range byseq {
			g := gmap[e.G]
			if g == 0 {
				g = 1 // callers only produce "call" events, which do not use the process id
			}
			enc.Encode(map[string]interface{}{"ev": e.Ev, "g": g, "ok": e.Ok})
		}
		enc.Encode(map[string]interface{}{"ev": "call", "g": 1, "ok": okq}) // quiescence observation
		enc.Encode(map[string]interface{}{"ev": "round", "g": 1, "ok": true})
	}
	steady.Reset()
}

type rng2 = rng

func sortEvs(e []concEv) {
	// insertion sort is fine: events are almost sorted
	for i := 1; i < len(e); i++ {
		for j := i; j > 0 && e[j].Seq < e[j-1].Seq; j-- {
			e[j], e[j-1] = e[j-1], e[j]
		}
	}
}
