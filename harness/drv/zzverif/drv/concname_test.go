//go:build go1.18

package drv

import (
	"fmt"
	"os"
	"sync"
	"testing"

	mocker "github.com/tencent/goom"
	"github.com/tencent/goom/zzverif/corpus/fn"
	"github.com/tencent/goom/zzverif/corpus/fn2"
)

// TestVerifConcByName: builders of their own on goroutines of their own mock, check and reset DISJOINT targets that are addressed BY
// NAME (unexported functions of two packages, an unexported method) - every apply resolves its name in the shared symbol table.
// Under the race detector; every goroutine checks that its own target answers its own replacement and is the original again.
func TestVerifConcByName(t *testing.T) {
	if os.Getenv("VERIF_OUT") == "" {
		t.Skip()
	}
	quiet()
	rounds := envIntOr("VERIF_ROUNDS", 40)
	type tgt struct {
		mock func(b *mocker.Builder, v int)
		call func() int
		orig int
	}
	tgts := []tgt{
		{func(b *mocker.Builder, v int) { b.Pkg(fn.Pkg).ExportFunc("f").Apply(func(a int) int { return v }) }, func() int { return fn.CallUE("f", 5) }, fn.CallUE("f", 5)},
		{func(b *mocker.Builder, v int) { b.Pkg(fn.Pkg).ExportFunc("g").As(func(int) int { return 0 }).Return(v) }, func() int { return fn.CallUE("g", 5) }, fn.CallUE("g", 5)},
		{func(b *mocker.Builder, v int) { b.Pkg(fn2.Pkg).ExportFunc("dup").Apply(func(a int) int { return v }) }, func() int { return fn2.CallDup(5) }, fn2.CallDup(5)},
		{func(b *mocker.Builder, v int) {
			b.Struct(&fn.S{}).ExportMethod("h").Apply(func(s *fn.S, a int) int { return v })
		}, func() int { return (&fn.S{Tag: 7}).CallUEM("h", 5) }, (&fn.S{Tag: 7}).CallUEM("h", 5)},
	}
	var wg sync.WaitGroup
	errs := make(chan string, 64)
	for i, tg := range tgts {
		wg.Add(1)
		go func(i int, tg tgt) {
			defer wg.Done()
			defer func() {
				if r := recover(); r != nil {
					errs <- fmt.Sprintf("builder %d: panic %v", i, r)
				}
			}()
			for r := 0; r < rounds; r++ {
				b := mocker.Create() // (a fresh builder: nothing is remembered, every round resolves the name again)
				v := 70000 + 100*i + r
				tg.mock(b, v)
				if got := tg.call(); got != v {
					errs <- fmt.Sprintf("builder %d round %d: its target answered %d, its replacement answers %d", i, r, got, v)
					b.Reset()
					return
				}
				b.Reset()
				if got := tg.call(); got != tg.orig {
					errs <- fmt.Sprintf("builder %d round %d: after Reset its target answered %d, the original answers %d", i, r, got, tg.orig)
					return
				}
			}
		}(i, tg)
	}
	wg.Wait()
	close(errs)
	for e := range errs {
		t.Error(e)
	}
}
