//go:build go1.18

package drv

import (
	"fmt"
	"reflect"
	"runtime"
	"strings"
	"unsafe"

	mocker "github.com/tencent/goom"
	"github.com/tencent/goom/zzverif/corpus/ifc"
)

// ifaceWorld binds spec/Iface.tla: i1,i2 -> ifc.I1 (nil), ifc.I2 (real impl) of type I;
// j1 -> ifc.J1 (nil) of type J; k1 -> ifc.K1 of type K (embedded J).
type ifaceWorld struct {
	b    map[string]*mocker.Builder
	init map[string][2]uintptr
	hi   map[string]*mocker.CachedInterfaceMocker // kept b.Interface(&v) values, by builder/variable
	hm   map[string]mocker.InterfaceMocker        // kept ....Method(m) values, by builder/variable/method
}

func (w *ifaceWorld) Name() string { return "iface" }

func words(p unsafe.Pointer) [2]uintptr { return *(*[2]uintptr)(p) }

func (w *ifaceWorld) ptr(v string) (interface{}, unsafe.Pointer) {
	switch v {
	case "i1":
		return &ifc.I1, unsafe.Pointer(&ifc.I1)
	case "i2":
		return &ifc.I2, unsafe.Pointer(&ifc.I2)
	case "j1":
		return &ifc.J1, unsafe.Pointer(&ifc.J1)
	case "k1":
		return &ifc.K1, unsafe.Pointer(&ifc.K1)
	case "l1":
		return ifc.L1.Ptr, reflect.ValueOf(ifc.L1.Ptr).UnsafePointer()
	case "l2":
		return ifc.L2.Ptr, reflect.ValueOf(ifc.L2.Ptr).UnsafePointer()
	}
	panic("var " + v)
}

func (w *ifaceWorld) Begin() {
	ifc.Restore()
	w.b = map[string]*mocker.Builder{}
	w.init = map[string][2]uintptr{}
	w.hi = map[string]*mocker.CachedInterfaceMocker{}
	w.hm = map[string]mocker.InterfaceMocker{}
	for _, v := range []string{"i1", "i2", "j1", "k1", "l1", "l2"} {
		_, p := w.ptr(v)
		w.init[v] = words(p)
	}
}

func (w *ifaceWorld) builder(b string) *mocker.Builder {
	if w.b[b] == nil {
		w.b[b] = mocker.Create()
	}
	return w.b[b]
}

// ifaceState: per-mock state a callback hangs on its context; cyclic on purpose
type ifaceState struct {
	Ctx   *mocker.IContext
	Self  *ifaceState
	Calls int
}

var churnSink [][]byte

func churn() {
	for i := 0; i < 3; i++ {
		runtime.GC()
		churnSink = churnSink[:0]
		for j := 0; j < 2000; j++ {
			churnSink = append(churnSink, make([]byte, 32+j%200))
		}
		// fresh closures and MakeFunc-sized objects to reuse freed slots
		fs := make([]func(int) int, 0, 500)
		for j := 0; j < 500; j++ {
			k := j
			fs = append(fs, func(a int) int { return a + k })
		}
		_ = fs
	}
	churnSink = nil
	runtime.GC()
}

func (w *ifaceWorld) Do(st Step) string {
	return catch(func() {
		switch st.Str("op") {
		case "Mock":
			ip, _ := w.ptr(st.Str("v"))
			base := 10000 + 100*st.Int("id")
			kI := st.Str("b") + "/" + st.Str("v")
			kM := kI + "/" + st.Str("m")
			var h mocker.InterfaceMocker
			switch st.Str("via") {
			case "heldM":
				h = w.hm[kM]
			case "heldI":
				h = w.hi[kI].Method(st.Str("m"))
			default:
				w.hi[kI] = w.builder(st.Str("b")).Interface(ip)
				h = w.hi[kI].Method(st.Str("m"))
			}
			w.hm[kM] = h
			switch st.Str("kind") {
			case "apply":
				// the callback keeps per-mock state in ctx.Data, with a pointer back to the context (what a log line renders when it
				// prints the receiver must not depend on being able to walk it - C19)
				h.Apply(func(ctx *mocker.IContext, a int) int {
					if ctx.Data == nil {
						st := &ifaceState{Ctx: ctx}
						st.Self = st
						ctx.Data = st
					}
					ctx.Data.(*ifaceState).Calls++
					return base + 7
				})
			case "stub":
				h.As(func(ctx *mocker.IContext, a int) int { return 0 }).Return(base + 7)
			case "seq": // the first call receives base+7, every later one base+9
				h.As(func(ctx *mocker.IContext, a int) int { return 0 }).Returns(base+7, base+9)
			default: // "when": answers only the argument 7
				h.As(func(ctx *mocker.IContext, a int) int { return 0 }).When(7).Return(base + 7)
			}
		case "Reset":
			w.builder(st.Str("b")).Reset()
		case "Drop":
			delete(w.b, st.Str("b"))
			for k := range w.hi {
				if strings.HasPrefix(k, st.Str("b")+"/") {
					delete(w.hi, k)
				}
			}
			for k := range w.hm {
				if strings.HasPrefix(k, st.Str("b")+"/") {
					delete(w.hm, k)
				}
			}
		case "GC":
			churn()
		case "Call":
		default:
			panic("ifaceWorld op " + st.Str("op"))
		}
	})
}

func (w *ifaceWorld) call(v, m string, a int) int {
	switch v {
	case "i1":
		return ifc.CallI(ifc.I1, m, a)
	case "i2":
		return ifc.CallI(ifc.I2, m, a)
	case "j1":
		return ifc.J1.Z(a)
	case "l1":
		return ifc.L1.Call(m, a)
	case "l2":
		return ifc.L2.Call(m, a)
	default:
		if m == "Z" {
			return ifc.K1.Z(a)
		}
		return ifc.K1.Y(a)
	}
}

func (w *ifaceWorld) Observe(st Step) map[string]string {
	out := map[string]string{}
	for v := range st.Obs() {
		_, p := w.ptr(v)
		cur := words(p)
		switch {
		case cur == w.init[v]:
			out[v] = "orig"
		case cur[0] == 0:
			out[v] = "nil"
		default:
			out[v] = "fake"
		}
	}
	if st.Str("op") == "Call" {
		v, m := st.Str("v"), st.Str("m")
		_, p := w.ptr(v)
		if cur := words(p); cur == w.init[v] {
			if cur[0] == 0 {
				out["res"] = "orig" // the original value is nil: nothing to call
				return out
			}
		}
		var r int
		arg := st.Int("a")
		pm := catch(func() { r = w.call(v, m, arg) })
		switch {
		case pm != "" && strings.Contains(pm, "method not implements"):
			out["res"] = "panic:notimpl"
		case pm != "" && strings.Contains(pm, "no suitable condition"):
			out["res"] = "panic:nocond"
		case pm != "":
			out["res"] = pm
		case r >= 10000 && (r-10000)%100 == 9:
			out["res"] = fmt.Sprintf("seq2:%d", (r-10000)/100)
		case r >= 10000 && (r-10000)%100 == 7:
			out["res"] = fmt.Sprintf("repl:%d", (r-10000)/100)
		case r >= 500 && r < 1000 && false:
			out["res"] = "orig"
		case r >= 500 && r < 1000:
			out["res"] = "orig"
		default:
			out["res"] = fmt.Sprintf("?%d", r)
		}
	}
	return out
}

func (w *ifaceWorld) End() string {
	for _, b := range w.b {
		catch(func() { b.Reset() })
	}
	ifc.Restore()
	return ""
}

func init() {
	worlds["iface"] = func() []World { return []World{&ifaceWorld{}} }
}
