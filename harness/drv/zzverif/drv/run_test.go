//go:build go1.18

// Package drv replays behaviours of the TLA+ specifications (spec/*.tla, printed by TLC as JSON
// histories) through goom's public API and compares, after every step, the observable state of
// the real library with the observable the specification requires ("obs", "panic").
package drv

import (
	"bufio"
	"encoding/json"
	"fmt"
	"github.com/tencent/goom/zzverif/gate"
	"os"
	"sort"
	"strings"
	"sync/atomic"
	"syscall"
	"testing"
	"time"

	"github.com/tencent/goom/internal/logger"
)

// Step is one action of a behaviour: op name, its arguments, and the required observables.
type Step map[string]interface{}

func (s Step) Str(k string) string {
	if v, ok := s[k]; ok {
		if x, ok := v.(string); ok {
			return x
		}
		return fmt.Sprint(v)
	}
	return ""
}
func (s Step) Int(k string) int {
	if v, ok := s[k]; ok {
		if x, ok := v.(float64); ok {
			return int(x)
		}
	}
	return 0
}
func (s Step) Obs() map[string]string {
	out := map[string]string{}
	if m, ok := s["obs"].(map[string]interface{}); ok {
		for k, v := range m {
			out[k] = fmt.Sprint(v)
		}
	}
	return out
}

// World binds the abstract names of a specification to concrete corpus objects.
type World interface {
	Name() string
	Begin()                            // start of a behaviour (state must be pristine)
	Do(st Step) string                 // perform the op; "" or "panic:<message>"
	Observe(st Step) map[string]string // observable state after the op
	End() string                       // undo everything; "" or a description of what is not pristine
}

type Mismatch struct {
	Beh   int    `json:"beh"`
	World string `json:"world"`
	Step  int    `json:"step"`
	Op    string `json:"op"`
	Key   string `json:"key"`
	Want  string `json:"want"`
	Got   string `json:"got"`
}

// worlds is filled by the world_*.go files.
var worlds = map[string]func() []World{}

// debugSteps counts the steps performed while goom's debug logging was open (non-vacuity of C19).
var debugSteps int

func panicClass(msg string) string {
	return msg
}

func runBehaviour(w World, id int, steps []Step) *Mismatch {
	baseLogging() // every family runs under the logging configuration of VERIF_LOG (C19)
	w.Begin()
	var mm *Mismatch
	for i, st := range steps {
		if logger.IsDebugOpen() {
			debugSteps++
		}
		p := w.Do(st)
		want := st.Str("panic")
		if (want == "") != (p == "") || (want != "" && want != "rejected" && !strings.Contains(p, want)) {
			mm = &Mismatch{id, w.Name(), i, st.Str("op"), "panic", want, p}
			break
		}
		got := w.Observe(st)
		obs := st.Obs()
		keys := make([]string, 0, len(obs))
		for k := range obs {
			keys = append(keys, k)
		}
		sort.Strings(keys)
		if want, ok := st["res"]; ok && mm == nil {
			alt := st.Str("alt") // a second acceptable result where the statement can be read in two ways (spec: ReqSeq)
			if ws := fmt.Sprint(want); ws != "free" && got["res"] != ws && (alt == "" || got["res"] != alt) {
				mm = &Mismatch{id, w.Name(), i, st.Str("op"), "res", ws, got["res"]}
				break
			}
		}
		var bang []string
		for k := range got {
			if strings.HasPrefix(k, "!") {
				bang = append(bang, k)
			}
		}
		sort.Strings(bang)
		for _, k := range bang {
			if g := got[k]; g != "ok" {
				mm = &Mismatch{id, w.Name(), i, st.Str("op"), k, "ok", g}
				break
			}
		}
		if mm != nil {
			break
		}
		for _, k := range keys {
			if obs[k] == "free" {
				continue
			}
			if g, ok := got[k]; !ok || g != obs[k] {
				mm = &Mismatch{id, w.Name(), i, st.Str("op"), k, obs[k], g}
				break
			}
		}
		if mm != nil {
			break
		}
	}
	if e := w.End(); e != "" && mm == nil {
		mm = &Mismatch{id, w.Name(), len(steps), "End", "pristine", "", e}
	}
	return mm
}

// TestVerifReplay: VERIF_IN = ndjson, one behaviour (JSON array of steps) per line;
// VERIF_WORLD = family; VERIF_OUT = ndjson of mismatches + one summary line.
func TestVerifReplay(t *testing.T) {
	in, out, fam := os.Getenv("VERIF_IN"), os.Getenv("VERIF_OUT"), os.Getenv("VERIF_WORLD")
	if in == "" {
		t.Skip("no VERIF_IN")
	}
	quiet()
	mk, ok := worlds[fam]
	if !ok {
		t.Fatalf("unknown world family %q", fam)
	}
	ws := mk()
	f, err := os.Open(in)
	if err != nil {
		t.Fatal(err)
	}
	defer f.Close()
	of, err := os.Create(out)
	if err != nil {
		t.Fatal(err)
	}
	defer of.Close()
	bw := bufio.NewWriter(of)
	defer bw.Flush()
	enc := json.NewEncoder(bw)
	// VERIF_NOMMAP=1: executable mappings are refused for this whole process (interface stubs must come from goom's built-in
	// reserve); if that cannot be arranged here the run reports it instead of replaying under the wrong conditions
	if os.Getenv("VERIF_NOMMAP") == "1" {
		if err := gate.DenyExecMmap(); err != nil {
			enc.Encode(map[string]interface{}{"summary": true, "behaviours": 0, "runs": 0, "mismatches": 0, "worlds": len(ws), "nommap": "unavailable: " + err.Error()})
			return
		}
		if _, err := syscall.Mmap(-1, 0, 4096, syscall.PROT_READ|syscall.PROT_WRITE|syscall.PROT_EXEC, syscall.MAP_PRIVATE|syscall.MAP_ANON); err == nil {
			enc.Encode(map[string]interface{}{"summary": true, "behaviours": 0, "runs": 0, "mismatches": 0, "worlds": len(ws), "nommap": "unavailable: the filter did not take effect"})
			return
		}
	}
	sc := bufio.NewScanner(f)
	sc.Buffer(make([]byte, 1<<20), 1<<26)
	nb, nrun, nmm := 0, 0, 0
	// progress file + watchdog: a crash or a hang is attributed to the behaviour being replayed
	prog, _ := os.Create(out + ".progress")
	var cur int64 = -1
	var curStart int64
	limit := time.Duration(envIntOr("VERIF_WATCHDOG_S", 30)) * time.Second // a behaviour takes milliseconds; generous for loaded machines
	base := time.Now()                                                     // (monotonic readings: a step of the wall clock must not look like a hang)
	go func() {
		for {
			time.Sleep(200 * time.Millisecond)
			c, st := atomic.LoadInt64(&cur), atomic.LoadInt64(&curStart)
			if c >= 0 && int64(time.Since(base))-st > int64(limit) && atomic.LoadInt64(&cur) == c {
				fmt.Fprintf(os.Stderr, "WATCHDOG: behaviour %d exceeded %v\n", c, limit)
				os.Exit(3)
			}
		}
	}()
	for sc.Scan() {
		var steps []Step
		if err := json.Unmarshal(sc.Bytes(), &steps); err != nil {
			t.Fatalf("behaviour %d: %v", nb, err)
		}
		atomic.StoreInt64(&curStart, int64(time.Since(base)))
		atomic.StoreInt64(&cur, int64(nb))
		prog.WriteAt([]byte(fmt.Sprintf("%-12d", nb)), 0)
		// self-test of the replay machinery: VERIF_DIE_ONCE=<marker file>:<behaviour> makes the driver die once at that behaviour
		if d := os.Getenv("VERIF_DIE_ONCE"); d != "" {
			if i := strings.LastIndex(d, ":"); i > 0 && d[i+1:] == fmt.Sprint(nb) {
				if _, err := os.Stat(d[:i]); err != nil {
					os.WriteFile(d[:i], []byte("x"), 0o644)
					fmt.Fprintf(os.Stderr, "VERIF_DIE_ONCE at behaviour %d\n", nb)
					os.Exit(3)
				}
			}
		}
		for _, w := range ws {
			nrun++
			if mm := runBehaviour(w, nb, steps); mm != nil {
				nmm++
				if nmm <= 2000 {
					enc.Encode(mm)
				}
			}
		}
		nb++
	}
	atomic.StoreInt64(&cur, -1)
	enc.Encode(map[string]interface{}{"summary": true, "behaviours": nb, "runs": nrun, "mismatches": nmm, "worlds": len(ws), "debug_steps": debugSteps})
}

func catch(f func()) (msg string) {
	defer func() {
		if e := recover(); e != nil {
			msg = "panic:" + fmt.Sprint(e)
		}
	}()
	f()
	return ""
}
