//go:build go1.18

package drv

import (
	"bufio"
	"encoding/json"
	"fmt"
	"os"
	"sync"
	"testing"

	mocker "github.com/tencent/goom"
	"github.com/tencent/goom/zzverif/corpus/fn"
	"github.com/tencent/goom/zzverif/corpus/sig"
)

// TestVerifParallel: C01 "from any goroutine": several goroutines call ONE mocked function at the same time, each with its own
// argument; the replacement must see each caller's argument and each caller must receive the result computed for it - for an Apply
// callback, for a conditional stub and for a variadic target, under the logging configuration of VERIF_LOG. One record per form,
// in the format of the signature zoo (judged by Trace_Dispatch).
func TestVerifParallel(t *testing.T) {
	out := os.Getenv("VERIF_OUT")
	if out == "" {
		t.Skip()
	}
	quiet()
	baseLogging()
	of, _ := os.Create(out)
	defer of.Close()
	bw := bufio.NewWriter(of)
	defer bw.Flush()
	enc := json.NewEncoder(bw)
	G, N := envIntOr("VERIF_G", 8), envIntOr("VERIF_N", 400)
	type form struct {
		desc, mode string
		params     []string
		variadic   bool
		setup      func(b *mocker.Builder)
		call       func(a int) int
		want       func(a int) int
	}
	forms := []form{
		{"func(int) int", "apply", []string{"int"}, false,
			func(b *mocker.Builder) { b.Func(fn.F).Apply(func(a int) int { return 5000 + 3*a }) },
			fn.F, func(a int) int { return 5000 + 3*a }},
		{"func(int) int", "when", []string{"int"}, false,
			func(b *mocker.Builder) {
				w := b.Func(sig.F1).Return(-1)
				for k := 0; k < 64; k++ {
					w = w.When(k).Return(7000 + k)
				}
			},
			sig.F1, func(a int) int { return 7000 + a }},
		{"func(int, ...int) int", "apply", []string{"int"}, true,
			func(b *mocker.Builder) {
				b.Func(sig.V1).Apply(func(a int, xs ...int) int { return 6000 + a + 10*len(xs) + xs[len(xs)-1] })
			},
			func(a int) int { return sig.V1(a, a+1, a+2) }, func(a int) int { return 6000 + a + 20 + a + 2 }},
	}
	for _, f := range forms {
		b := mocker.Create()
		bad, detail := 0, ""
		p := catch(func() {
			f.setup(b)
			// meanwhile another builder keeps mocking and resetting OTHER functions of the same package (neighbours in the text
			// segment, usually in the same page): callers of a mocked function must not notice
			stop := make(chan struct{})
			var bg sync.WaitGroup
			bg.Add(1)
			go func() {
				defer bg.Done()
				nb := mocker.Create()
				for i := 0; ; i++ {
					select {
					case <-stop:
						nb.Reset()
						return
					default:
					}
					nb.Func(fn.SentinelA).Return(i)
					nb.Func(fn.SentinelB).Apply(func(a int) int { return a })
					nb.Reset()
				}
			}()
			defer func() { close(stop); bg.Wait() }()
			var wg sync.WaitGroup
			var mu sync.Mutex
			for g := 0; g < G; g++ {
				wg.Add(1)
				go func(g int) {
					defer wg.Done()
					defer func() {
						if r := recover(); r != nil {
							mu.Lock()
							bad++
							detail = fmt.Sprint("panic in a caller: ", r)
							mu.Unlock()
						}
					}()
					for i := 0; i < N; i++ {
						a := (g*7 + i) % 64
						if got := f.call(a); got != f.want(a) {
							mu.Lock()
							bad++
							if detail == "" {
								detail = fmt.Sprintf("caller %d passed %d and received %d, its own result is %d", g, a, got, f.want(a))
							}
							mu.Unlock()
						}
					}
				}(g)
			}
			wg.Wait()
		})
		if p != "" {
			bad++
			detail = p
		}
		catch(func() { b.Reset() })
		enc.Encode(map[string]interface{}{"desc": f.desc, "params": f.params, "variadic": f.variadic, "results": []string{"int"},
			"mode": f.mode, "moment": "parallel", "form": fmt.Sprintf("%d goroutines x %d calls", G, N), "ok": bad == 0,
			"detail": fmt.Sprintf("%d wrong results; %s", bad, detail), "sig": -1})
	}
}
