//go:build go1.18

package drv

import (
	"fmt"
	"strings"

	"github.com/tencent/goom/internal/patch"
	"github.com/tencent/goom/zzverif/corpus/fn"
)

// patchWorld binds spec/Patch.tla to package internal/patch itself (the layer under every function mock):
// targets f, g, h -> fn.F, fn.G, fn.H; guard ids are the spec's (the g-th successful or refused Patch call).
type patchWorld struct {
	guards map[int]*patch.Guard
	keep   []interface{} // replacements stay referenced: the entry jump goes through their func values
	last   string        // result of the last op that has one
}

func (w *patchWorld) Name() string { return "patchapi" }

func (w *patchWorld) target(t string) func(int) int {
	return map[string]func(int) int{"f": fn.F, "g": fn.G, "h": fn.H}[t]
}

func (w *patchWorld) Begin() {
	theImage()
	patch.UnpatchAll()
	w.guards = map[int]*patch.Guard{}
	w.keep = nil
}

func (w *patchWorld) Do(st Step) string {
	w.last = ""
	return catch(func() {
		switch st.Str("op") {
		case "Patch":
			g := st.Int("g")
			repl := func(a int) int { return 20000 + 100*g + a }
			w.keep = append(w.keep, repl)
			guard, err := patch.Patch(w.target(st.Str("t")), repl)
			switch {
			case err == nil:
				w.guards[g] = guard
				w.last = "ok"
			case strings.Contains(err.Error(), "already patch"):
				w.last = "already-patched"
			default:
				w.last = "error:" + err.Error()
			}
		case "Apply":
			w.guards[st.Int("g")].Apply()
		case "UnpatchG":
			w.guards[st.Int("g")].UnpatchWithLock()
		case "Restore":
			w.guards[st.Int("g")].Restore()
		case "UnpatchT":
			w.last = fmt.Sprint(patch.Unpatch(w.target(st.Str("t"))))
		case "UnpatchAll":
			patch.UnpatchAll()
		case "Call":
		default:
			panic("patchWorld op " + st.Str("op"))
		}
	})
}

func (w *patchWorld) Observe(st Step) map[string]string {
	im := theImage()
	out := map[string]string{}
	if w.last != "" {
		out["res"] = w.last
	}
	if st.Str("op") == "Call" {
		t := st.Str("t")
		var r int
		p := catch(func() { r = w.target(t)(5) })
		k := tnum[t]
		switch {
		case p != "":
			out["res"] = p
		case r == 1000*k+5:
			out["res"] = "orig"
		case r >= 20000 && (r-20000)%100 == 5:
			out["res"] = fmt.Sprintf("repl:%d", (r-20000)/100)
		default:
			out["res"] = fmt.Sprintf("?%d", r)
		}
	}
	var allowed []rng
	for t, want := range st.Obs() {
		r := im.funcs[fn.Pkg+"."+strings.ToUpper(t)]
		e := im.entryState(r[0])
		out[t] = e
		if e != "P" && e != "J" {
			out["!entry:"+t] = e
		}
		if want != "P" {
			allowed = append(allowed, rng{r[0], r[0] + 13})
		}
	}
	out["!image"] = im.outside(allowed)
	return out
}

func (w *patchWorld) End() string {
	patch.UnpatchAll()
	// guards that are no longer registered (undisciplined histories) are undone by their holder
	for _, g := range w.guards {
		g.UnpatchWithLock()
	}
	im := theImage()
	res := ""
	if s := im.outside(nil); s != "ok" {
		res = "image after UnpatchAll and Unpatch of every guard: " + s
	}
	if p := im.perms(); p != "ok" {
		res += " perms: " + p
	}
	for _, d := range im.diff() {
		healText(d.lo, im.pristine(d.lo, int(d.hi-d.lo)))
	}
	return res
}

func init() {
	worlds["patchapi"] = func() []World { return []World{&patchWorld{}} }
}
