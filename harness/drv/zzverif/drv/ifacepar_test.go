//go:build go1.18

package drv

import (
	"fmt"
	"os"
	"sync"
	"testing"

	mocker "github.com/tencent/goom"
	"github.com/tencent/goom/zzverif/corpus/ifc"
)

// TestVerifIfaceParallel: C07 "different variables are mocked independently" - also when they are mocked at the same time: twelve
// goroutines, each with a builder of its own, mock all twelve methods of ONE variable each (from a common start); afterwards every
// method of every variable is called sequentially and must reach its own replacement; Reset puts the originals back. Several rounds.
func TestVerifIfaceParallel(t *testing.T) {
	if os.Getenv("VERIF_OUT") == "" {
		t.Skip()
	}
	quiet()
	baseLogging()
	rounds := envIntOr("VERIF_ROUNDS", 12)
	for r := 0; r < rounds; r++ {
		ifc.RestoreBig()
		bs := make([]*mocker.Builder, 12)
		start := make(chan struct{})
		var wg sync.WaitGroup
		errs := make(chan string, 32)
		for v := 1; v <= 12; v++ {
			wg.Add(1)
			go func(v int) {
				defer wg.Done()
				defer func() {
					if p := recover(); p != nil {
						errs <- fmt.Sprintf("round %d: mocking variable %d: panic %v", r, v, p)
					}
				}()
				b := mocker.Create()
				bs[v-1] = b
				<-start
				for m := 1; m <= 12; m++ {
					val := 100000*(r+1) + 1000*v + 10*m
					h := b.Interface(&ifc.BigV[v-1]).Method(ifc.BigNames[m-1])
					if (v+m)%2 == 0 {
						h.Apply(func(ctx *mocker.IContext, a int) int { return val + a })
					} else {
						h.As(func(ctx *mocker.IContext, a int) int { return 0 }).Return(val + 7)
					}
				}
			}(v)
		}
		close(start)
		wg.Wait()
		close(errs)
		for e := range errs {
			t.Fatal(e)
		}
		for v := 1; v <= 12; v++ {
			for m := 1; m <= 12; m++ {
				want := 100000*(r+1) + 1000*v + 10*m + 7
				var got int
				if p := catch(func() { got = ifc.CallBig(v, m, 7) }); p != "" || got != want {
					t.Fatalf("round %d: variable %d method %s reached another replacement: got %d %s, its own answers %d", r, v, ifc.BigNames[m-1], got, p, want)
				}
			}
		}
		for _, b := range bs {
			b.Reset()
		}
		for v := 1; v <= 12; v++ {
			for m := 1; m <= 12; m++ {
				if got := ifc.CallBig(v, m, 7); got != ifc.BigOrig(v, m, 7) {
					t.Fatalf("round %d: after Reset variable %d method %d answers %d", r, v, m, got)
				}
			}
		}
	}
}
