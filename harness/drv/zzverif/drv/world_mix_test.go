//go:build go1.18

package drv

import (
	"strings"

	mocker "github.com/tencent/goom"
)

// mixWorld binds spec/Mix.tla: ONE builder shared by the function world (kind func, target f), the variable world
// (type int, variable x1) and the interface world (variable i1). Every step names its family; Reset is performed once on
// the shared builder and observed through all three worlds.
type mixWorld struct {
	life *lifeWorld
	vr   *varWorld
	ifc  *ifaceWorld
	b    *mocker.Builder
	typ  string
}

func (w *mixWorld) Name() string { return "mix/" + w.typ }

func (w *mixWorld) Begin() {
	w.life = &lifeWorld{kind: "func"}
	w.vr = &varWorld{typ: w.typ}
	w.ifc = &ifaceWorld{}
	w.life.Begin()
	w.vr.Begin()
	w.ifc.Begin()
	w.b = mocker.Create()
	w.life.b["b1"], w.vr.b["b1"], w.ifc.b["b1"] = w.b, w.b, w.b
}

func (w *mixWorld) Do(st Step) string {
	switch st.Str("fam") {
	case "life":
		return w.life.Do(st)
	case "var":
		return w.vr.Do(st)
	case "iface":
		return w.ifc.Do(st)
	}
	return catch(func() { w.b.Reset() })
}

// sub returns a copy of the step whose observables are restricted to the keys of one family
func sub(st Step, keep func(string) bool, withRes bool) Step {
	s := Step{}
	for k, v := range st {
		if k == "obs" || (!withRes && (k == "res" || k == "alt")) {
			continue
		}
		s[k] = v
	}
	obs := map[string]interface{}{}
	for k, v := range st.Obs() {
		if keep(k) {
			obs[k] = v
		}
	}
	s["obs"] = obs
	return s
}

func (w *mixWorld) Observe(st Step) map[string]string {
	out := map[string]string{}
	fam := st.Str("fam")
	merge := func(m map[string]string) {
		for k, v := range m {
			if k == "res" || !strings.HasPrefix(k, "!") || v != "ok" || out[k] == "" {
				out[k] = v
			}
		}
	}
	isLife := func(k string) bool { return k == "f" || k == "g" || strings.HasPrefix(k, "ph:") }
	isVar := func(k string) bool { return strings.HasPrefix(k, "x") }
	isIfc := func(k string) bool { return strings.HasPrefix(k, "i") || strings.HasPrefix(k, "j") }
	// every step is observed through all three worlds (an instruction affects its own target only); a call's result
	// belongs to the family that made it
	lifeSt, ifcSt := sub(st, isLife, fam == "life"), sub(st, isIfc, fam == "iface")
	if fam != "life" {
		lifeSt["op"] = "Peek"
	}
	if fam != "iface" {
		ifcSt["op"] = "Peek"
	}
	merge(w.life.Observe(lifeSt))
	merge(w.vr.Observe(sub(st, isVar, false)))
	merge(w.ifc.Observe(ifcSt))
	return out
}

func (w *mixWorld) End() string {
	catch(func() { w.b.Reset() })
	r := w.life.End()
	w.vr.End()
	w.ifc.End()
	return r
}

func init() {
	worlds["mix"] = func() []World {
		return []World{&mixWorld{typ: "int"}, &mixWorld{typ: "err"}, &mixWorld{typ: "map"}}
	}
}
