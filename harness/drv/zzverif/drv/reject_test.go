//go:build go1.18

package drv

import (
	"bufio"
	"encoding/json"
	"fmt"
	"github.com/tencent/goom/arg"
	"os"
	"testing"

	mocker "github.com/tencent/goom"
	"github.com/tencent/goom/erro"
	asmleaf "github.com/tencent/goom/nocgo"
	"github.com/tencent/goom/zzverif/corpus/conv"
	"github.com/tencent/goom/zzverif/corpus/fn"
	"github.com/tencent/goom/zzverif/corpus/ifc"
	"github.com/tencent/goom/zzverif/corpus/sig"
	pbv1 "github.com/tencent/goom/zzverif/corpus/v1/pb"
	pbv2 "github.com/tencent/goom/zzverif/corpus/v2/pb"
	"github.com/tencent/goom/zzverif/corpus/vars"
)

// catchVal runs f and returns the recovered panic value (nil if none).
func catchVal(f func()) (v interface{}) {
	defer func() { v = recover() }()
	f()
	return nil
}

// typed: the panic value is an error whose erro.Cause chain reaches a typed (non-generic) goom error
func causeClass(v interface{}) string {
	err, ok := v.(error)
	if !ok {
		return "untyped"
	}
	for c := err; c != nil; c = erro.Cause(c) {
		switch c.(type) {
		case *erro.ArgsNotMatch, *erro.ReturnsNotMatch, *erro.IllegalParam, *erro.IllegalParamType, *erro.FuncNotFound,
			*erro.ArgNotFound, *erro.FieldNotFound, *erro.IllegalStatus, *erro.TypeNotFound, *erro.ReturnParamNotFound:
			return "typed"
		}
	}
	return "untyped"
}

// chained: a mistake made on an EXISTING, well-formed configuration (wh). The well-formed part is taken back (Reset) before the
// rejection is passed on, so that the judgement "nothing was installed, the target is the original" applies to the mistake alone.
func chained(b *mocker.Builder, wh *mocker.When, bad func(*mocker.When)) {
	defer func() {
		r := recover()
		b.Reset()
		if r != nil {
			panic(r)
		}
	}()
	bad(wh)
}

// TestVerifRejectScenarios: one record per (mistake, prior state).
func TestVerifRejectScenarios(t *testing.T) {
	out := os.Getenv("VERIF_OUT")
	if out == "" {
		t.Skip()
	}
	quiet()
	baseLogging()
	of, _ := os.Create(out)
	defer of.Close()
	bw := bufio.NewWriter(of)
	defer bw.Flush()
	enc := json.NewEncoder(bw)
	im := theImage()
	type scen struct {
		name   string
		do     func(b *mocker.Builder)
		target func() string // behaviour of the target the mistake aimed at: "orig" / other
		prior  func(b *mocker.Builder)
		follow func(b *mocker.Builder) string
	}
	fTok := func() string { return token("f", 5, fn.F(5)) }
	applyF := func(b *mocker.Builder) { b.Func(fn.F).Apply(func(a int) int { return 5100 + a }) }
	followF := func(b *mocker.Builder) string {
		b.Func(fn.F).Apply(func(a int) int { return 5200 + a })
		if got := fTok(); got != "cb:c2" {
			return "apply-after-reject-gives-" + got
		}
		b.Reset()
		if got := fTok(); got != "orig" {
			return "reset-gives-" + got
		}
		return "ok"
	}
	f2Tok := func() string {
		if sig.F2(1, 2) == 203 {
			return "orig"
		}
		return "mocked"
	}
	ifaceTok := func() string {
		if ifc.J1 == nil {
			return "orig"
		}
		return "mocked"
	}
	scens := []scen{
		{"non-function", func(b *mocker.Builder) { b.Func(123).Apply(func() {}) }, fTok, nil, followF},
		{"apply-arity", func(b *mocker.Builder) { b.Func(fn.F).Apply(func(a, c int) int { return 0 }) }, fTok, nil, followF},
		{"apply-size", func(b *mocker.Builder) { b.Func(fn.F).Apply(func(a int8) int { return 0 }) }, fTok, nil, followF},
		{"when-few", func(b *mocker.Builder) { b.Func(sig.F2).When(1).Return(9001) }, f2Tok, nil,
			func(b *mocker.Builder) string {
				b.Func(sig.F2).When(1, 2).Return(9001)
				if sig.F2(1, 2) != 9001 {
					return "when-after-reject-not-effective"
				}
				b.Reset()
				return map[bool]string{true: "ok", false: "reset-not-effective"}[sig.F2(1, 2) == 203]
			}},
		{"ret-few", func(b *mocker.Builder) { b.Func(fn.F).Return() }, fTok, nil, followF},
		{"ret-size", func(b *mocker.Builder) { b.Func(fn.F).Return(int8(1)) }, fTok, nil, followF},
		{"unknown-method", func(b *mocker.Builder) { b.Struct(&fn.S{}).Method("Nope").Return(1) }, fTok, nil, followF},
		{"unknown-symbol", func(b *mocker.Builder) { b.Pkg(fn.Pkg).ExportFunc("nope").Apply(func(a int) int { return 0 }) }, fTok, nil, followF},
		{"unknown-symbol-as", func(b *mocker.Builder) { b.Pkg(fn.Pkg).ExportFunc("nope").As(func(a int) int { return 0 }).Return(1) }, fTok, nil, followF},
		{"iface-non-pointer", func(b *mocker.Builder) {
			b.Interface(123).Method("Z").Apply(func(c *mocker.IContext, a int) int { return 0 })
		}, ifaceTok, nil, nil},
		{"iface-not-interface", func(b *mocker.Builder) {
			s := &fn.S{}
			b.Interface(&s).Method("F").Apply(func(c *mocker.IContext, a int) int { return 0 })
		}, ifaceTok, nil, nil},
		{"iface-first-param", func(b *mocker.Builder) { b.Interface(&ifc.J1).Method("Z").Apply(func(c int, a int) int { return 0 }) }, ifaceTok, nil, nil},
		{"iface-arity", func(b *mocker.Builder) {
			b.Interface(&ifc.J1).Method("Z").Apply(func(c *mocker.IContext) int { return 0 })
		}, ifaceTok, nil, nil},
		{"iface-unknown-method", func(b *mocker.Builder) {
			b.Interface(&ifc.J1).Method("Nope").Apply(func(c *mocker.IContext, a int) int { return 0 })
		}, ifaceTok, nil, nil},
	}
	// mistake class x signature x position of the offending argument (targets: two fixed parameters, variadic with two fixed,
	// method, method by name, interface stub); target() = every involved target still behaves as the original
	allOrig := func() string {
		if fTok() != "orig" {
			return "fn.F:" + fTok()
		}
		if sig.F2(1, 2) != 203 {
			return "sig.F2 mocked"
		}
		if sig.V2(1, 2, 3) != 504 {
			return "sig.V2 mocked"
		}
		if (&sig.S{}).M1(1) != 601 {
			return "sig.S.M1 mocked"
		}
		if (&fn.S{Tag: 7}).CallUEM("f", 5) != fn.F(5) && false {
			return "fn.S.f mocked"
		}
		return ifaceTok()
	}
	type S = sig.S
	more := []scen{
		{"apply-size@2", func(b *mocker.Builder) { b.Func(sig.F2).Apply(func(a int, c int8) int { return 0 }) }, allOrig, nil, nil},
		{"apply-size@1of2", func(b *mocker.Builder) { b.Func(sig.F2).Apply(func(a int8, c int) int { return 0 }) }, allOrig, nil, nil},
		{"apply-arity-fewer", func(b *mocker.Builder) { b.Func(sig.F2).Apply(func(a int) int { return 0 }) }, allOrig, nil, nil},
		{"apply-result-size", func(b *mocker.Builder) { b.Func(fn.F).Apply(func(a int) int8 { return 0 }) }, allOrig, nil, nil},
		{"apply-result-count", func(b *mocker.Builder) { b.Func(fn.F).Apply(func(a int) (int, int) { return 0, 0 }) }, allOrig, nil, nil},
		{"apply-no-result", func(b *mocker.Builder) { b.Func(fn.F).Apply(func(a int) {}) }, allOrig, nil, nil},
		{"apply-variadic-size", func(b *mocker.Builder) { b.Func(sig.V2).Apply(func(a int, c int8, xs ...int) int { return 0 }) }, allOrig, nil, nil},
		{"method-apply-arity", func(b *mocker.Builder) { b.Struct(&S{}).Method("M1").Apply(func(s *S) int { return 0 }) }, allOrig, nil, nil},
		{"method-apply-no-receiver", func(b *mocker.Builder) { b.Struct(&S{}).Method("M1").Apply(func(a int) int { return 0 }) }, allOrig, nil, nil},
		{"method-apply-size", func(b *mocker.Builder) { b.Struct(&S{}).Method("M1").Apply(func(s *S, a int8) int { return 0 }) }, allOrig, nil, nil},
		{"method-ret-few", func(b *mocker.Builder) { b.Struct(&S{}).Method("M1").Return() }, allOrig, nil, nil},
		{"method-ret-size", func(b *mocker.Builder) { b.Struct(&S{}).Method("M1").Return(int8(1)) }, allOrig, nil, nil},
		{"when-few-variadic", func(b *mocker.Builder) { b.Func(sig.V2).When(1).Return(1) }, allOrig, nil, nil},
		{"when-arg-size", func(b *mocker.Builder) { b.Func(fn.F).When(int8(1)).Return(1) }, allOrig, nil, nil},
		{"when-arg-size@2", func(b *mocker.Builder) { b.Func(sig.F2).When(1, int8(2)).Return(1) }, allOrig, nil, nil},
		{"returns-size@2", func(b *mocker.Builder) { b.Func(fn.F).Returns(1, int8(2)) }, allOrig, nil, nil},
		{"uemethod-unknown", func(b *mocker.Builder) {
			b.Struct(&fn.S{}).ExportMethod("nope").Apply(func(s *fn.S, a int) int { return 0 })
		}, allOrig, nil, nil},
		{"uefunc-ret-few", func(b *mocker.Builder) { b.Pkg(fn.Pkg).ExportFunc("f").As(func(a int) int { return 0 }).Return() }, allOrig, nil, nil},
		{"uefunc-ret-size", func(b *mocker.Builder) {
			b.Pkg(fn.Pkg).ExportFunc("f").As(func(a int) int { return 0 }).Return(int8(1))
		}, allOrig, nil, nil},
		{"iface-ret-size", func(b *mocker.Builder) {
			b.Interface(&ifc.J1).Method("Z").As(func(c *mocker.IContext, a int) int { return 0 }).Return(int8(1))
		}, allOrig, nil, nil},
		{"iface-ret-few", func(b *mocker.Builder) {
			b.Interface(&ifc.J1).Method("Z").As(func(c *mocker.IContext, a int) int { return 0 }).Return()
		}, allOrig, nil, nil},
		{"iface-apply-size", func(b *mocker.Builder) {
			b.Interface(&ifc.J1).Method("Z").Apply(func(c *mocker.IContext, a int8) int { return 0 })
		}, allOrig, nil, nil},
	}
	loopTok := func() string {
		if fn.Loop(5) == 5 && fn.Loop(104) == 98 {
			return "orig"
		}
		return fmt.Sprintf("mocked(%d)", fn.Loop(5))
	}
	structTok := func() string {
		if r := conv.RStruct(); r.A != -1 || r.B != "orig" {
			return fmt.Sprintf("mocked(%+v)", r)
		}
		if conv.PStruct(conv.S{}) != -1 || conv.RPtr().A != -1 {
			return "mocked"
		}
		return "orig"
	}
	more = append(more,
		scen{"ret-size-struct", func(b *mocker.Builder) { b.Func(conv.RStruct).Return(conv.SBig{A: 1, B: "a", C: 2}) }, structTok, nil, nil},
		scen{"ret-size-ptr", func(b *mocker.Builder) { b.Func(conv.RPtr).Return("a string") }, structTok, nil, nil},
		scen{"when-arg-size-struct", func(b *mocker.Builder) { b.Func(conv.PStruct).When(conv.SBig{A: 1, B: "a", C: 2}).Return(1) }, structTok, nil, nil})
	// names left empty, instructions in the wrong order (branches of the configuration API that nothing else reaches)
	more = append(more,
		scen{"empty-method-name", func(b *mocker.Builder) { b.Struct(&fn.S{}).Method("").Return(1) }, allOrig, nil, nil},
		scen{"empty-method-name-apply", func(b *mocker.Builder) { b.Struct(&fn.S{}).Method("").Apply(func(s *fn.S, a int) int { return 0 }) }, allOrig, nil, nil},
		scen{"empty-uemethod-name", func(b *mocker.Builder) {
			b.Struct(&fn.S{}).ExportMethod("").Apply(func(s *fn.S, a int) int { return 0 })
		}, allOrig, nil, nil},
		scen{"empty-uefunc-name", func(b *mocker.Builder) { b.Pkg(fn.Pkg).ExportFunc("").Apply(func(a int) int { return 0 }) }, allOrig, nil, nil},
		scen{"iface-empty-method-name", func(b *mocker.Builder) {
			b.Interface(&ifc.J1).Method("").Apply(func(c *mocker.IContext, a int) int { return 0 })
		}, allOrig, nil, nil},
		scen{"iface-return-before-as", func(b *mocker.Builder) { b.Interface(&ifc.J1).Method("Z").Return(1) }, allOrig, nil, nil},
		scen{"iface-returns-before-as", func(b *mocker.Builder) { b.Interface(&ifc.J1).Method("Z").Returns(1, 2) }, allOrig, nil, nil},
		scen{"iface-when-before-as", func(b *mocker.Builder) { b.Interface(&ifc.J1).Method("Z").When(1).Return(1) }, allOrig, nil, nil},
		scen{"method-when-few", func(b *mocker.Builder) { b.Struct(&sig.S{}).Method("M2").When(1).Return(1) }, allOrig, nil, nil},
		// too few conditions given on an EXISTING configuration (When.When / Matches have no checkParams of their own)
		scen{"when-few-chained-variadic", func(b *mocker.Builder) {
			chained(b, b.Func(sig.V2).Return(9), func(w *mocker.When) { w.When(1).Return(1) })
		}, allOrig, nil, nil},
		scen{"when-few-chained-fixed", func(b *mocker.Builder) {
			chained(b, b.Func(sig.F2).Return(9), func(w *mocker.When) { w.When(1).Return(1) })
		}, allOrig, nil, nil},
		scen{"when-few-chained-variadic-method", func(b *mocker.Builder) {
			chained(b, b.Struct(&sig.S{}).Method("MV").Return(9), func(w *mocker.When) { w.When().Return(1) })
		}, allOrig, nil, nil},
		scen{"matches-few-variadic", func(b *mocker.Builder) {
			chained(b, b.Func(sig.V2).Return(9), func(w *mocker.When) { w.Matches(arg.Pair{Args: []interface{}{1}, Return: 1}) })
		}, allOrig, nil, nil},
		// a result of the wrong size for a function whose TWIN (same-named package, same-named result type of another size) was
		// stubbed correctly just before: anything remembered per printed type must not let the wrong value through
		scen{"ret-size-after-twin", func(b *mocker.Builder) {
			tb := mocker.Create()
			tb.Func(pbv1.Load).Return(pbv1.Rec{ID: 5})
			_ = pbv1.Load()
			tb.Reset()
			b.Func(pbv2.Load).Return(pbv1.Rec{ID: 7})
		}, func() string {
			if r := pbv2.Load(); r.ID != -1 || r.Name != "orig" {
				return fmt.Sprintf("mocked(%+v)", r)
			}
			if r := pbv1.Load(); r.ID != -1 {
				return fmt.Sprintf("twin mocked(%+v)", r)
			}
			return "orig"
		}, nil, nil},
		scen{"returns-size-after-twin", func(b *mocker.Builder) {
			tb := mocker.Create()
			tb.Func(pbv1.Load).Returns(pbv1.Rec{ID: 5}, pbv1.Rec{ID: 6})
			tb.Reset()
			b.Func(pbv2.Load).Returns(pbv1.Rec{ID: 7}, pbv1.Rec{ID: 8})
		}, func() string {
			if r := pbv2.Load(); r.ID != -1 || r.Name != "orig" {
				return fmt.Sprintf("mocked(%+v)", r)
			}
			return "orig"
		}, nil, nil},
		scen{"nil-func-target", func(b *mocker.Builder) { b.Func(nil).Return(1) }, allOrig, nil, nil},
		scen{"var-apply-non-func", func(b *mocker.Builder) { b.Var(&vars.SV[0]).Apply(5) }, allOrig, nil, nil},
		scen{"var-apply-two-results", func(b *mocker.Builder) { b.Var(&vars.SV[0]).Apply(func() (int, int) { return 1, 2 }) }, allOrig, nil, nil})
	more = append(more, scen{"origin-unrelocatable", func(b *mocker.Builder) {
		b.Func(fn.Loop).Origin(&fn.OLoop).Apply(func(a int) int { return 3000 + fn.OLoop(a) })
	}, loopTok, nil, nil})
	leafTok := func() string {
		if asmleaf.CallLeaf() == 0x11 {
			return "orig"
		}
		return fmt.Sprintf("mocked(%#x)", asmleaf.Hit)
	}
	more = append(more, scen{"target-shorter-than-the-jump", func(b *mocker.Builder) {
		b.Pkg(asmleaf.Pkg).ExportFunc("leaf").Apply(func() { asmleaf.Hit = 0x99 })
	}, leafTok, nil, nil})
	scens = append(scens, more...)
	for _, sc := range scens {
		for _, prior := range []string{"never", "same-builder", "after-reset"} {
			onF := sc.follow != nil && sc.name != "when-few" && sc.name != "non-function"
			onLoop := sc.name == "origin-unrelocatable"
			if prior == "same-builder" && !onF {
				continue
			}
			if prior == "after-reset" && !onF && !onLoop {
				continue
			}
			ifc.Restore()
			b := mocker.Create()
			var allowed []rng
			if prior == "same-builder" {
				applyF(b)
				r := im.funcs[fn.Pkg+".F"]
				allowed = append(allowed, rng{r[0], r[0] + 13})
			}
			if prior == "after-reset" {
				// the target was mocked and reset before (by another builder that is gone): the patch table still remembers it
				b0 := mocker.Create()
				if onLoop {
					b0.Func(fn.Loop).Apply(func(a int) int { return 1000 })
				} else {
					applyF(b0)
				}
				b0.Reset()
			}
			v := catchVal(func() { sc.do(b) })
			rec := map[string]string{"mistake": sc.name, "prior": prior, "outcome": "rejected", "cause": causeClass(v), "followup": "ok"}
			if v == nil {
				rec["outcome"] = "accepted"
			} else {
				rec["panic"] = fmt.Sprint(v)
				if len(rec["panic"]) > 100 {
					rec["panic"] = rec["panic"][:100]
				}
			}
			// the very same mistake a second time (nothing the first rejection left behind may make it pass)
			if v != nil {
				if v2 := catchVal(func() { sc.do(b) }); v2 == nil {
					rec["outcome"] = "accepted-on-second-attempt"
				}
			}
			rec["image"] = im.outside(allowed)
			rec["target"] = "orig"
			if p := catch(func() { rec["target"] = sc.target() }); p != "" {
				rec["target"] = p
			}
			if sc.follow != nil {
				if p := catch(func() { rec["followup"] = sc.follow(b) }); p != "" {
					rec["followup"] = p
				}
			}
			catch(func() { b.Reset() })
			for _, d := range im.diff() {
				healText(d.lo, im.pristine(d.lo, int(d.hi-d.lo)))
			}
			fn.RestoreOrigins()
			ifc.Restore()
			enc.Encode(rec)
		}
	}
}
