//go:build go1.18

package drv

import (
	"fmt"
	"strings"

	mocker "github.com/tencent/goom"
	"github.com/tencent/goom/zzverif/corpus/mz"
)

// methodWorld binds spec/Method.tla: targets "A.Call","A.Call2","A.call","V.Call","V.Get","u.Call","E.Own",
// "Gint.M","Gstr.M","GpA.M","GpV.M".
type methodWorld struct {
	b      map[string]*mocker.Builder
	recvOK bool
	recvNote string
}

func (w *methodWorld) Name() string { return "method" }
func (w *methodWorld) Begin()       { w.b = map[string]*mocker.Builder{}; w.recvOK = true; w.recvNote = "" }
func (w *methodWorld) End() string {
	for _, b := range w.b {
		catch(func() { b.Reset() })
	}
	im := theImage()
	for _, d := range im.diff() {
		healText(d.lo, im.pristine(d.lo, int(d.hi-d.lo)))
	}
	return ""
}
func (w *methodWorld) builder(b string) *mocker.Builder {
	if w.b[b] == nil {
		w.b[b] = mocker.Create()
	}
	return w.b[b]
}

// u: an unexported struct type of THIS package with the SAME NAME as mz.u (a type is addressed by package AND name), addressed
// without Pkg() (the builder's current package)
type u struct{ Tag int }

//go:noinline
func (p *u) Call(a int) int {
	if a < -10000 {
		fmt.Println("never")
	}
	return 1100 + a + p.Tag
}

var instL = []*u{{Tag: 1}, {Tag: 2}, {Tag: 3}}

const mzPkg = "github.com/tencent/goom/zzverif/corpus/mz"

// instances per type: three with distinct field values
var (
	instA = []*mz.A{{Tag: 1}, {Tag: 2, Pad: [3]int{7, 8, 9}}, {Tag: 3}}
	instV = []mz.V{{Tag: 1, S: "a"}, {Tag: 2, S: "bb"}, {Tag: 3}}
	instU = []interface{}{mz.NewU(1), mz.NewU(2), mz.NewU(3)}
	instE = []*mz.E{{A: mz.A{Tag: 1}, Extra: 5}, {A: mz.A{Tag: 2}}, {A: mz.A{Tag: 3}}}
	instM = []*mz.M{{Tag: 1}, {Tag: 2, Y: [2]int{4, 5}}, {Tag: 3}}
	gInt  = []*mz.G[int]{{Tag: 1, X: 5}, {Tag: 2}, {Tag: 3, X: -1}}
	wInt  = []mz.W[int]{{Tag: 1, X: 5}, {Tag: 2}, {Tag: 3, X: -1}}
	gStr  = []*mz.G[string]{{Tag: 1, X: "x"}, {Tag: 2}, {Tag: 3, X: "yy"}}
	gPA   = []*mz.G[*mz.A]{{Tag: 1, X: instA[0]}, {Tag: 2}, {Tag: 3}}
	gPV   = []*mz.G[*mz.V]{{Tag: 1}, {Tag: 2, X: &instV[0]}, {Tag: 3}}
)

func (w *methodWorld) bad(format string, a ...interface{}) {
	if w.recvOK {
		w.recvOK = false
		w.recvNote = fmt.Sprintf(format, a...)
	}
}

func (w *methodWorld) Do(st Step) string {
	return catch(func() {
		switch st.Str("op") {
		case "Mock":
			bl := w.builder(st.Str("b"))
			base := 10000 + 100*st.Int("id")
			tgt := st.Str("t")
			apply := st.Str("kind") == "apply"
			typ, meth := tgt[:strings.Index(tgt, ".")], tgt[strings.Index(tgt, ".")+1:]
			switch typ {
			case "A":
				cb := func(p *mz.A, a int) int {
					if p == nil || p != instA[p.Tag-1] {
						w.bad("A.%s: receiver %p is not the instance", meth, p)
					}
					return base + a
				}
				if meth == "call" || meth == "callAll" {
					h := bl.Struct(&mz.A{}).ExportMethod(meth)
					if apply {
						h.Apply(cb)
					} else {
						h.As(func(p *mz.A, a int) int { return 0 }).Return(base + 7)
					}
				} else if apply {
					bl.Struct(&mz.A{}).Method(meth).Apply(cb)
				} else {
					bl.Struct(&mz.A{}).Method(meth).Return(base + 7)
				}
			case "V":
				cb := func(v mz.V, a int) int {
					if v.Tag < 1 || v.Tag > 3 || v != instV[v.Tag-1] {
						w.bad("V.%s: receiver %+v is not a copy of the instance", meth, v)
					}
					return base + a
				}
				if apply {
					bl.Struct(mz.V{}).Method(meth).Apply(cb)
				} else {
					bl.Struct(mz.V{}).Method(meth).Return(base + 7)
				}
			case "M":
				if meth == "P" {
					if apply {
						bl.Struct(&mz.M{}).Method("P").Apply(func(p *mz.M, a int) int {
							if p == nil || p != instM[p.Tag-1] {
								w.bad("M.P: receiver %p is not the instance", p)
							}
							return base + a
						})
					} else {
						bl.Struct(&mz.M{}).Method("P").Return(base + 7)
					}
				} else {
					if apply {
						bl.Struct(mz.M{}).Method("Q").Apply(func(v mz.M, a int) int {
							if v.Tag < 1 || v.Tag > 3 || v != *instM[v.Tag-1] {
								w.bad("M.Q: receiver %+v is not a copy of the instance", v)
							}
							return base + a
						})
					} else {
						bl.Struct(mz.M{}).Method("Q").Return(base + 7)
					}
				}
			case "u":
				h := bl.Pkg(mzPkg).ExportStruct("*u").Method("Call")
				if apply {
					h.Apply(func(p *mz.UL, a int) int {
						if p == nil || p.Tag < 1 || p.Tag > 3 {
							w.bad("u.Call: receiver %+v", p)
						}
						return base + a
					})
				} else {
					h.As(func(p *mz.UL, a int) int { return 0 }).Return(base + 7)
				}
			case "l":
				h := bl.ExportStruct("*u").Method("Call")
				if apply {
					h.Apply(func(p *u, a int) int {
						if p == nil || p.Tag < 1 || p.Tag > 3 || p != instL[p.Tag-1] {
							w.bad("u.Call: receiver %+v", p)
						}
						return base + a
					})
				} else {
					h.As(func(p *u, a int) int { return 0 }).Return(base + 7)
				}
			case "E":
				if apply {
					bl.Struct(&mz.E{}).Method("Own").Apply(func(p *mz.E, a int) int {
						if p == nil || p != instE[p.Tag-1] {
							w.bad("E.Own: receiver %p", p)
						}
						return base + a
					})
				} else {
					bl.Struct(&mz.E{}).Method("Own").Return(base + 7)
				}
			case "Gint":
				if meth == "N" {
					// (stubs only: Apply on generic methods is the open finding F21; the spec's "apply" = a superseding instruction
					// is rendered as Cancel + a fresh stub, and so is every other instruction on N)
					_ = apply
					bl.Struct(&mz.G[int]{}).Method("N").Cancel() // every instruction starts a fresh stub (where the spec says a second
					bl.Struct(&mz.G[int]{}).Method("N").Return(base + 7) // Return only extends, its requirement is "free" anyway)
				} else if apply {
					bl.Struct(&mz.G[int]{}).Method("M").Apply(func(p *mz.G[int], a int) int {
						if p == nil || p.Tag < 1 || p.Tag > 3 || p != gInt[p.Tag-1] {
							w.bad("G[int].M: receiver %p is not the instance", p)
						}
						return base + a
					})
				} else {
					bl.Struct(&mz.G[int]{}).Method("M").Return(base + 7)
				}
			case "Wint":
				// (stubs only, every instruction a fresh stub - like Gint.N)
				bl.Struct(mz.W[int]{}).Method("M").Cancel()
				bl.Struct(mz.W[int]{}).Method("M").Return(base + 7)
			case "Gstr":
				if apply {
					bl.Struct(&mz.G[string]{}).Method("M").Apply(func(p *mz.G[string], a int) int {
						if p == nil || p.Tag < 1 || p.Tag > 3 || p != gStr[p.Tag-1] {
							w.bad("G[string].M: receiver %p is not the instance", p)
						}
						return base + a
					})
				} else {
					bl.Struct(&mz.G[string]{}).Method("M").Return(base + 7)
				}
			case "GpA":
				if apply {
					bl.Struct(&mz.G[*mz.A]{}).Method("M").Apply(func(p *mz.G[*mz.A], a int) int { return base + a })
				} else {
					bl.Struct(&mz.G[*mz.A]{}).Method("M").Return(base + 7)
				}
			case "GpV":
				if apply {
					bl.Struct(&mz.G[*mz.V]{}).Method("M").Apply(func(p *mz.G[*mz.V], a int) int { return base + a })
				} else {
					bl.Struct(&mz.G[*mz.V]{}).Method("M").Return(base + 7)
				}
			default:
				panic("type " + typ)
			}
		case "Reset":
			w.builder(st.Str("b")).Reset()
		case "CallAll":
		default:
			panic("methodWorld op " + st.Str("op"))
		}
	})
}

// call target t on instance i with argument 7
func (w *methodWorld) call(t string, i int) int {
	switch t {
	case "A.Call":
		return instA[i].Call(7)
	case "A.Call2":
		return instA[i].Call2(7)
	case "A.callAll":
		return instA[i].CallAllLower(7)
	case "A.call":
		return instA[i].CallLower(7)
	case "V.Call":
		return instV[i].Call(7)
	case "V.Get":
		return instV[i].Get(7)
	case "u.Call":
		return mz.CallU(instU[i], 7)
	case "l.Call":
		return instL[i].Call(7)
	case "E.Own":
		return instE[i].Own(7)
	case "E.Call": // promoted from the embedded A
		return instE[i].Call(7)
	case "M.P":
		return instM[i].P(7)
	case "M.Q":
		return (*instM[i]).Q(7)
	case "Gint.M":
		return gInt[i].M(7)
	case "Gint.N":
		return gInt[i].N(7)
	case "Wint.M":
		return wInt[i].M(7)
	case "Gstr.M":
		return gStr[i].M(7)
	case "GpA.M":
		return gPA[i].M(7)
	case "GpV.M":
		return gPV[i].M(7)
	}
	panic("target " + t)
}

var origBase = map[string]int{"A.Call": 100, "A.Call2": 200, "A.call": 300, "A.callAll": 1200, "V.Call": 400, "V.Get": 500, "u.Call": 600, "l.Call": 1100, "E.Own": 700,
	"E.Call": 100, "M.P": 900, "M.Q": 1000, "Gint.M": 800, "Gint.N": 850, "Wint.M": 1300, "Gstr.M": 800, "GpA.M": 800, "GpV.M": 800}

func (w *methodWorld) Observe(st Step) map[string]string {
	out := map[string]string{}
	if st.Str("op") != "CallAll" {
		return out
	}
	exp, _ := st["exp"].(map[string]interface{})
	for t, wantI := range exp {
		want := fmt.Sprint(wantI)
		for i := 0; i < 3; i++ {
			var r int
			p := catch(func() { r = w.call(t, i) })
			got := ""
			switch {
			case p != "":
				got = p
			case t == "Gint.N" && p == "" && func() bool {
				x := r - 50 // N's own code returns M(a) + 50, whatever M currently is: its original, a stub (possibly a sequence) ...
				if x == origBase["Gint.M"]+7+(i+1) || (x >= 10000 && (x-10000)%100 == 7) {
					return true
				}
				m := 0 // ... or what an Apply callback on M returns (open finding F21: deterministic garbage)
				catch(func() { m = w.call("Gint.M", i) })
				return m == x
			}():
				got = "orig" // N's own code runs: whatever M currently is, plus 50
			case r == origBase[t]+7+(i+1):
				got = "orig"
			case r >= 10000 && (r-10000)%100 == 7:
				got = fmt.Sprintf("repl:%d", (r-10000)/100)
			default:
				got = fmt.Sprintf("?%d", r)
			}
			if want != "free" && got != want {
				out["!call"] = fmt.Sprintf("%s on instance %d: required %s, real %s", t, i+1, want, got)
				return out
			}
		}
	}
	out["!call"] = "ok"
	if !w.recvOK {
		out["!receiver"] = w.recvNote
	} else {
		out["!receiver"] = "ok"
	}
	return out
}

func init() {
	worlds["method"] = func() []World { return []World{&methodWorld{}} }
}
