//go:build go1.18

package drv

import (
	"fmt"

	mocker "github.com/tencent/goom"
	"github.com/tencent/goom/zzverif/corpus/fn"
)

// scaleWorld binds spec/Scale.tla: 64 targets mocked in groups by one shared builder or by a builder of their own each,
// a conditional stub with many conditions (target C) and a long sequenced stub (target Q). After EVERY step every target
// is called, every entry's bytes are inspected, the image outside the mocked entries and the page permissions are checked.
type scaleWorld struct {
	shared *mocker.Builder
	fresh  map[int]*mocker.Builder
	held   map[string]*mocker.DefMocker // the handle of the latest lookup, per builder and target (used again for Apply only:
	// a bare Return through a handle that holds a Return stub extends it - Goom.tla / C05)
}

func (w *scaleWorld) Name() string { return "scale" }
func (w *scaleWorld) Begin() {
	theImage()
	w.shared = mocker.Create()
	w.fresh = map[int]*mocker.Builder{}
	w.held = map[string]*mocker.DefMocker{}
}

// maskIdx: the 1-based indices at which a membership mask (sequence of booleans) is true
func maskIdx(v interface{}) []int {
	l, _ := v.([]interface{})
	var out []int
	for i, x := range l {
		if b, _ := x.(bool); b {
			out = append(out, i+1)
		}
	}
	return out
}

func (w *scaleWorld) mock(b *mocker.Builder, key string, i int, kind, via string, id int) {
	f := fn.Scale[i-1]
	if kind == "apply" {
		var h *mocker.DefMocker
		if via == "held" && w.held[key] != nil {
			h = w.held[key]
		} else {
			h = b.Func(f)
			w.held[key] = h
		}
		h.Apply(func(a int) int { return id*100000 + i*100 + a })
	} else {
		h := b.Func(f)
		w.held[key] = h
		h.Return(id*100000 + i*100 + 7)
	}
}

func (w *scaleWorld) Do(st Step) string {
	return catch(func() {
		id := st.Int("id")
		switch st.Str("op") {
		case "MockShared":
			for _, i := range maskIdx(st["is"]) {
				w.mock(w.shared, fmt.Sprint("s", i), i, st.Str("kind"), st.Str("via"), id)
			}
		case "MockFresh":
			for _, i := range maskIdx(st["is"]) {
				if w.fresh[i] == nil {
					w.fresh[i] = mocker.Create()
				}
				w.mock(w.fresh[i], fmt.Sprint("f", i), i, st.Str("kind"), st.Str("via"), id)
			}
		case "CancelShared":
			for _, i := range maskIdx(st["is"]) {
				w.shared.Func(fn.Scale[i-1]).Cancel()
			}
		case "ResetShared":
			w.shared.Reset()
		case "ResetFresh":
			for _, i := range maskIdx(st["is"]) {
				w.fresh[i].Reset()
			}
		case "CondStub":
			n := st.Int("n")
			if id%2 == 0 { // one chain
				wh := w.shared.Func(fn.ScaleC).Return(id * 100000)
				for k := 1; k <= n; k++ {
					wh = wh.When(k).Return(id*100000 + k)
				}
			} else { // a fresh lookup of the handle for every condition
				w.shared.Func(fn.ScaleC).Return(id * 100000)
				for k := 1; k <= n; k++ {
					w.shared.Func(fn.ScaleC).When(k).Return(id*100000 + k)
				}
			}
		case "SeqStub":
			n := st.Int("n")
			vs := make([]interface{}, n)
			for k := range vs {
				vs[k] = id*100000 + k + 1
			}
			w.shared.Func(fn.ScaleQ).Returns(vs...)
		}
	})
}

func (w *scaleWorld) Observe(st Step) map[string]string {
	out := map[string]string{"!scale": "ok", "!entries": "ok", "!cond": "ok", "!seq": "ok"}
	im := theImage()
	exp := ints(st["exp"])
	var allowed []rng
	entry := func(sym string, mocked bool, what string) {
		r, ok := im.funcs[sym]
		if !ok {
			panic("no symbol " + sym)
		}
		e := im.entryState(r[0])
		if want := map[bool]string{true: "J", false: "P"}[mocked]; e != want && out["!entries"] == "ok" {
			out["!entries"] = fmt.Sprintf("entry of %s: required %s, real %s", what, want, e)
		}
		if mocked {
			allowed = append(allowed, rng{r[0], r[0] + 13})
		}
	}
	p := catch(func() {
		for i := 1; i <= len(exp); i++ {
			r := fn.Scale[i-1](7)
			got := -1
			if r == 1000*i+7 {
				got = 0
			} else if r >= 100000 && r%100000 == i*100+7 {
				got = r / 100000
			}
			if got != exp[i-1] && out["!scale"] == "ok" {
				out["!scale"] = fmt.Sprintf("target S%02d: required replacement %d (0 = original), real %d (returned %d)", i, exp[i-1], got, r)
			}
		}
	})
	if p != "" {
		out["!scale"] = "calling the targets: " + p
	}
	for i := 1; i <= len(exp); i++ {
		entry(fmt.Sprintf("github.com/tencent/goom/zzverif/corpus/fn.S%02d", i), exp[i-1] != 0, fmt.Sprintf("S%02d", i))
	}
	entry("github.com/tencent/goom/zzverif/corpus/fn.ScaleC", st.Int("cid") != 0, "C")
	entry("github.com/tencent/goom/zzverif/corpus/fn.ScaleQ", st.Int("qid") != 0, "Q")
	out["!image"] = im.outside(allowed)
	if pm := im.perms(); pm != "ok" {
		out["!perms"] = pm
	}
	switch st.Str("op") {
	case "CallC":
		for a, want := range ints(st["expc"]) {
			var r int
			if p := catch(func() { r = fn.ScaleC(a) }); p != "" {
				out["!cond"] = fmt.Sprintf("C(%d) with %d conditions: %s", a, st.Int("cn"), p)
				break
			}
			if r != want {
				out["!cond"] = fmt.Sprintf("C(%d) with %d conditions: required %d, real %d", a, st.Int("cn"), want, r)
				break
			}
		}
	case "CallQ":
		for j, want := range ints(st["expq"]) {
			var r int
			if p := catch(func() { r = fn.ScaleQ(7) }); p != "" {
				out["!seq"] = fmt.Sprintf("call %d of this step on Q (sequence of %d): %s", j+1, st.Int("qn"), p)
				break
			}
			if r != want {
				out["!seq"] = fmt.Sprintf("call %d of this step on Q (sequence of %d): required %d, real %d", j+1, st.Int("qn"), want, r)
				break
			}
		}
	}
	return out
}

func (w *scaleWorld) End() string {
	catch(func() { w.shared.Reset() })
	for _, b := range w.fresh {
		catch(func() { b.Reset() })
	}
	im := theImage()
	res := ""
	if s := im.outside(nil); s != "ok" {
		res = "image after the final resets: " + s
		for _, d := range im.diff() { // heal, so that one failing behaviour does not poison the next
			healText(d.lo, im.pristine(d.lo, int(d.hi-d.lo)))
		}
	}
	return res
}

func init() { worlds["scale"] = func() []World { return []World{&scaleWorld{}} } }
