//go:build go1.18 && verif

package drv

import (
	"bufio"
	"encoding/json"
	"fmt"
	"math/rand"
	"os"
	"runtime"
	"strconv"
	"sync"
	"sync/atomic"
	"testing"

	mocker "github.com/tencent/goom"
	"github.com/tencent/goom/zzverif/corpus/fn"
	"github.com/tencent/goom/zzverif/gate"
)

type seqStep struct {
	G   int    `json:"g"`
	Act string `json:"act"`
	Idx int    `json:"idx"`
}

func envInt(k string, d int) int {
	if v, err := strconv.Atoi(os.Getenv(k)); err == nil {
		return v
	}
	return d
}

// TestVerifSeqSchedules replays every interleaving printed by TLC for spec/Seq.tla on the real
// BaseMatcher.Result through the matcher.loaded / matcher.added hooks.
func TestVerifSeqSchedules(t *testing.T) {
	in, out := os.Getenv("VERIF_IN"), os.Getenv("VERIF_OUT")
	if in == "" {
		t.Skip()
	}
	n, k := envInt("VERIF_N", 3), envInt("VERIF_K", 2)
	f, err := os.Open(in)
	if err != nil {
		t.Fatal(err)
	}
	defer f.Close()
	of, _ := os.Create(out)
	defer of.Close()
	enc := json.NewEncoder(of)
	sc := bufio.NewScanner(f)
	sc.Buffer(make([]byte, 1<<20), 1<<26)
	ns, nmm := 0, 0
	for sc.Scan() {
		var steps []seqStep
		if err := json.Unmarshal(sc.Bytes(), &steps); err != nil {
			t.Fatal(err)
		}
		if mm := replaySeq(steps, n, k); mm != "" {
			nmm++
			if nmm <= 50 {
				enc.Encode(map[string]interface{}{"sched": ns, "mismatch": mm})
			}
		}
		ns++
	}
	enc.Encode(map[string]interface{}{"summary": true, "schedules": ns, "mismatches": nmm})
}

func replaySeq(steps []seqStep, n, k int) (mm string) {
	b := mocker.Create()
	vals := make([]interface{}, n)
	for i := range vals {
		vals[i] = 9000 + i
	}
	b.Func(fn.F).Returns(vals...)
	s := gate.New("matcher.loaded", "matcher.added")
	mocker.VerifHook = s.Hook
	defer func() {
		mocker.VerifHook = nil
		b.Reset()
	}()
	procs := map[int]bool{}
	for _, st := range steps {
		if st.Act != "Probe" && !procs[st.G] {
			procs[st.G] = true
			s.Spawn(st.G, k, func() int { return fn.F(0) })
		}
	}
	for i, st := range steps {
		if st.Act == "Probe" { // every caller is done: one more call, outside the gates
			mocker.VerifHook = nil
			var r int
			if p := catch(func() { r = fn.F(0) }); p != "" {
				return fmt.Sprintf("step %d Probe: the call after all callers are done: %s", i, p)
			}
			if r != 9000+st.Idx {
				return fmt.Sprintf("step %d Probe: the call after all callers are done: spec element %d, real result %d", i, st.Idx, r-9000)
			}
			continue
		}
		ev, err := s.Step(st.G)
		if err != nil {
			panic(fmt.Sprintf("gate: %v (schedule step %d)", err, i))
		}
		switch st.Act {
		case "Load":
			if ev.Point != "matcher.loaded" {
				return fmt.Sprintf("step %d Load(g%d): expected to stop after the atomic load, got %s val=%d %s", i, st.G, ev.Point, ev.Val, ev.Msg)
			}
		case "Add":
			if ev.Point != "matcher.added" {
				return fmt.Sprintf("step %d Add(g%d): expected to stop after the atomic add, got %s val=%d %s", i, st.G, ev.Point, ev.Val, ev.Msg)
			}
		case "Ret", "RetLast":
			if ev.Point != "ret" {
				return fmt.Sprintf("step %d %s(g%d): expected the call to return element %d, got %s %s", i, st.Act, st.G, st.Idx, ev.Point, ev.Msg)
			}
			if ev.Val != 9000+st.Idx {
				return fmt.Sprintf("step %d %s(g%d): spec element %d, real result %d", i, st.Act, st.G, st.Idx, ev.Val-9000)
			}
		}
	}
	return ""
}

// TestVerifSeqStress: free-running racing callers; records start/end events with a global ticket
// (taken before the call and after the return) for validation by spec/Trace_Seq.tla.
func TestVerifSeqStress(t *testing.T) {
	out := os.Getenv("VERIF_OUT")
	if out == "" {
		t.Skip()
	}
	n, g, k, rounds := envInt("VERIF_N", 4), envInt("VERIF_G", 4), envInt("VERIF_K", 6), envInt("VERIF_ROUNDS", 20)
	rng := rand.New(rand.NewSource(int64(envInt("VERIF_SEED", 1))))
	of, _ := os.Create(out)
	defer of.Close()
	bw := bufio.NewWriter(of)
	defer bw.Flush()
	enc := json.NewEncoder(bw)
	type ev struct {
		T  int64  `json:"t"`
		Ev string `json:"ev"`
		G  int    `json:"g"`
		V  int    `json:"v"`
	}
	for r := 0; r < rounds; r++ {
		b := mocker.Create()
		vals := make([]interface{}, n)
		for i := range vals {
			vals[i] = 9000 + i
		}
		b.Func(fn.F).Returns(vals...)
		var ticket int64
		var mu sync.Mutex
		var evs []ev
		var wg sync.WaitGroup
		yields := make([][]int, g)
		for i := range yields {
			for j := 0; j < k; j++ {
				yields[i] = append(yields[i], rng.Intn(4))
			}
		}
		startCh := make(chan struct{})
		for i := 0; i < g; i++ {
			wg.Add(1)
			go func(i int) {
				defer wg.Done()
				<-startCh
				for j := 0; j < k; j++ {
					for y := 0; y < yields[i][j]; y++ {
						runtime.Gosched()
					}
					ts := atomic.AddInt64(&ticket, 1)
					v := fn.F(0)
					te := atomic.AddInt64(&ticket, 1)
					mu.Lock()
					evs = append(evs, ev{ts, "start", i, 0}, ev{te, "end", i, v - 9000})
					mu.Unlock()
				}
			}(i)
		}
		close(startCh)
		wg.Wait()
		b.Reset()
		// order by ticket
		byT := make([]ev, 2*g*k+1)
		for _, e := range evs {
			byT[e.T] = e
		}
		for _, e := range byT[1:] {
			enc.Encode(e)
		}
		enc.Encode(ev{0, "reset", 0, 0})
	}
}
