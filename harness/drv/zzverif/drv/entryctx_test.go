//go:build go1.18

package drv

import (
	"encoding/binary"
	"fmt"
	"os"
	"testing"
	"unsafe"

	mocker "github.com/tencent/goom"
	"github.com/tencent/goom/zzverif/corpus/fn"
)

// funcvalOf: the address of the function value (closure object) a func variable refers to - what the entry jump must load into the
// context register (movabs rdx, &funcval; jmp [rdx])
func funcvalOf(f *func(int) int) uint64 { return uint64(*(*uintptr)(unsafe.Pointer(f))) }

// TestVerifEntryContext: C15 "with the intended context register": closures of ONE literal applied one after the other to one
// target through the public API (same handle, fresh lookups, another builder in between): after every Apply the 13 entry bytes
// must be goom's absolute jump loading exactly THAT closure's function value, and the call must run that closure.
func TestVerifEntryContext(t *testing.T) {
	if os.Getenv("VERIF_OUT") == "" {
		t.Skip()
	}
	quiet()
	baseLogging()
	im := theImage()
	mk := func(k int) func(int) int { return func(a int) int { return 100*k + a } }
	entry := im.funcs[fn.Pkg+".F"][0]
	check := func(step string, cb *func(int) int, k int) {
		code := unsafe.Slice((*byte)(unsafe.Pointer(entry)), 13)
		if code[0] != 0x90 || code[1] != 0x48 || code[2] != 0xBA || code[11] != 0xFF || code[12] != 0x22 {
			t.Fatalf("%s: the entry of fn.F is not goom's absolute jump: % x", step, code)
		}
		if imm := binary.LittleEndian.Uint64(code[3:11]); imm != funcvalOf(cb) {
			t.Fatalf("%s: the entry jump loads context %#x, the function value just applied is %#x", step, imm, funcvalOf(cb))
		}
		if got := fn.F(5); got != 100*k+5 {
			t.Fatalf("%s: fn.F(5) = %d, the closure just applied answers %d", step, got, 100*k+5)
		}
	}
	b := mocker.Create()
	h := b.Func(fn.F)
	cbs := make([]func(int) int, 8)
	for k := 1; k <= 3; k++ { // the same handle
		cbs[k] = mk(k)
		h.Apply(cbs[k])
		check(fmt.Sprintf("Apply #%d through one handle", k), &cbs[k], k)
	}
	for k := 4; k <= 5; k++ { // fresh lookups
		cbs[k] = mk(k)
		b.Func(fn.F).Apply(cbs[k])
		check(fmt.Sprintf("Apply #%d through a fresh lookup", k), &cbs[k], k)
	}
	b.Reset()
	cbs[6] = mk(6)
	b.Func(fn.F).Apply(cbs[6])
	check("Apply after Reset", &cbs[6], 6)
	h6 := b.Func(fn.F)
	h6.Apply(cbs[6]) // the very same function value again
	check("the same function value applied again", &cbs[6], 6)
	b.Reset()
	if !im.same(entry, 13) {
		t.Fatalf("after Reset the entry of fn.F is not pristine")
	}
}
