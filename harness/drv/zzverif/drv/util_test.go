//go:build go1.18

package drv

import (
	"os"
	"syscall"
	"unsafe"

	mocker "github.com/tencent/goom"
	"github.com/tencent/goom/arg"
)

// baseLogging puts goom's logging into the configuration under test (VERIF_LOG = "", "debug",
// "trace"; "env" = GOOM_DEBUG was set before the process started and nothing is touched).
func baseLogging() {
	switch os.Getenv("VERIF_LOG") {
	case "debug":
		mocker.CloseTrace()
		mocker.OpenDebug()
	case "trace":
		mocker.OpenTrace()
	case "env":
	default:
		mocker.CloseTrace()
	}
}

// quiet sends the process's stdout to /dev/null (goom's console logging is voluminous).
func quiet() {
	if os.Getenv("VERIF_QUIET") == "" {
		return
	}
	if f, err := os.OpenFile("/dev/null", os.O_WRONLY, 0); err == nil {
		syscall.Dup2(int(f.Fd()), 1)
	}
}

func anyExpr() interface{} { return arg.Any() }

// healText restores bytes of the image by hand (only used after a mismatch was already recorded).
func healText(addr uintptr, data []byte) {
	ps := uintptr(syscall.Getpagesize())
	lo := addr &^ (ps - 1)
	hi := (addr + uintptr(len(data)) + ps - 1) &^ (ps - 1)
	page := unsafe.Slice((*byte)(unsafe.Pointer(lo)), int(hi-lo))
	if err := syscall.Mprotect(page, syscall.PROT_READ|syscall.PROT_WRITE|syscall.PROT_EXEC); err != nil {
		return
	}
	copy(unsafe.Slice((*byte)(unsafe.Pointer(addr)), len(data)), data)
	syscall.Mprotect(page, syscall.PROT_READ|syscall.PROT_EXEC)
}

func envIntOr(k string, d int) int {
	v := os.Getenv(k)
	n := 0
	if v == "" {
		return d
	}
	for _, c := range v {
		if c < '0' || c > '9' {
			return d
		}
		n = n*10 + int(c-'0')
	}
	return n
}
