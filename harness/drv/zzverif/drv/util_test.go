//go:build go1.18

package drv

import (
	"syscall"
	"unsafe"

	"github.com/tencent/goom/arg"
)

func anyExpr() interface{} { return arg.Any() }

// healText restores bytes of the image by hand (only used after a mismatch was already recorded).
func healText(addr uintptr, data []byte) {
	ps := uintptr(syscall.Getpagesize())
	lo := addr &^ (ps - 1)
	hi := (addr + uintptr(len(data)) + ps - 1) &^ (ps - 1)
	page := unsafe.Slice((*byte)(unsafe.Pointer(lo)), int(hi-lo))
	if err := syscall.Mprotect(page, syscall.PROT_READ|syscall.PROT_WRITE|syscall.PROT_EXEC); err != nil {
		return
	}
	copy(unsafe.Slice((*byte)(unsafe.Pointer(addr)), len(data)), data)
	syscall.Mprotect(page, syscall.PROT_READ|syscall.PROT_EXEC)
}
