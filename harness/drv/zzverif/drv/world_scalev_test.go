//go:build go1.18

package drv

import (
	"fmt"

	mocker "github.com/tencent/goom"
	"github.com/tencent/goom/zzverif/corpus/vars"
)

// scaleVWorld binds spec/Scale.tla (the function instance: every target is its own object) to 64 package VARIABLES: mocked in
// groups through one shared builder or a builder each (Set / Apply), cancelled one by one, reset; after every step every
// variable is read.
type scaleVWorld struct {
	shared *mocker.Builder
	fresh  map[int]*mocker.Builder
	held   map[string]mocker.VarMock // the handle of the latest lookup, per builder and variable
}

func (w *scaleVWorld) Name() string { return "scale-var" }
func (w *scaleVWorld) Begin() {
	vars.RestoreSV()
	w.shared = mocker.Create()
	w.fresh = map[int]*mocker.Builder{}
	w.held = map[string]mocker.VarMock{}
}

func (w *scaleVWorld) mock(b *mocker.Builder, key string, i int, kind, via string, id int) {
	v := id*100000 + i*100 + 7
	var h mocker.VarMock
	if via == "held" && w.held[key] != nil {
		h = w.held[key]
	} else {
		h = b.Var(&vars.SV[i-1])
		w.held[key] = h
	}
	if kind == "apply" {
		h.Apply(func() int { return v })
	} else {
		h.Set(v)
	}
}

func (w *scaleVWorld) Do(st Step) string {
	return catch(func() {
		id := st.Int("id")
		switch st.Str("op") {
		case "MockShared":
			for _, i := range maskIdx(st["is"]) {
				w.mock(w.shared, fmt.Sprint("s", i), i, st.Str("kind"), st.Str("via"), id)
			}
		case "MockFresh":
			for _, i := range maskIdx(st["is"]) {
				if w.fresh[i] == nil {
					w.fresh[i] = mocker.Create()
				}
				w.mock(w.fresh[i], fmt.Sprint("f", i), i, st.Str("kind"), st.Str("via"), id)
			}
		case "CancelShared":
			for _, i := range maskIdx(st["is"]) {
				w.shared.Var(&vars.SV[i-1]).Cancel()
			}
		case "ResetShared":
			w.shared.Reset()
		case "ResetFresh":
			for _, i := range maskIdx(st["is"]) {
				w.fresh[i].Reset()
			}
		case "CondStub", "SeqStub", "CallC", "CallQ": // (function-only operations of the shared behaviours: nothing to do for variables)
		}
	})
}

func (w *scaleVWorld) Observe(st Step) map[string]string {
	out := map[string]string{"!scale": "ok"}
	for i, want := range ints(st["exp"]) {
		r := vars.SV[i]
		got := -1
		if r == 1000*(i+1) {
			got = 0
		} else if r >= 100000 && r%100000 == (i+1)*100+7 {
			got = r / 100000
		}
		if got != want {
			out["!scale"] = fmt.Sprintf("variable SV[%d]: required mocked value %d (0 = the value before the first mock), real %d (holds %d)", i, want, got, r)
			break
		}
	}
	return out
}

func (w *scaleVWorld) End() string {
	catch(func() { w.shared.Reset() })
	for _, b := range w.fresh {
		catch(func() { b.Reset() })
	}
	res := ""
	for i, v := range vars.SV {
		if v != 1000*(i+1) {
			res = fmt.Sprintf("after the final resets SV[%d] holds %d", i, v)
			break
		}
	}
	vars.RestoreSV()
	return res
}

func init() { worlds["scale-var"] = func() []World { return []World{&scaleVWorld{}} } }
