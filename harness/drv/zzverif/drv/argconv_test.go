//go:build go1.18

package drv

import (
	"bufio"
	"encoding/json"
	"errors"
	"fmt"
	"os"
	"reflect"
	"testing"

	mocker "github.com/tencent/goom"
	"github.com/tencent/goom/zzverif/corpus/conv"
	"github.com/tencent/goom/zzverif/corpus/fn"
	"github.com/tencent/goom/zzverif/corpus/ifc"
)

type convKind struct {
	name   string
	ret    interface{}            // func() K
	par    interface{}            // func(K) int
	sup    map[string]interface{} // class -> supplied value
	expect map[string]interface{} // class -> value the caller must receive (as K); absent = zero value of K
}

// many: several supplied values of one class
type many []interface{}

func cvFn() int { return 7 }

type cvErr struct{ msg string }

func (e *cvErr) Error() string { return "cvErr" }

func convKinds() []convKind {
	ch := make(chan int, 1)
	e1 := errors.New("e1")
	hs := &conv.S{7, "h"}
	return []convKind{
		{"ptr", conv.RPtr, conv.PPtr,
			map[string]interface{}{"nil": nil, "typednil": (*conv.S)(nil), "val": &conv.S{1, "a"}, "lookalike": &conv.SL{2, "b"},
				"otherkind": many{int32(7), "a string", []int{1}, conv.SBig{1, "a", 2}, true}},
			map[string]interface{}{"val": &conv.S{1, "a"}, "lookalike": &conv.S{2, "b"}}},
		{"error", conv.RErr, conv.PErr, map[string]interface{}{"nil": nil, "concrete": e1, "nilconcrete": (*cvErr)(nil)},
			map[string]interface{}{"concrete": e1, "nilconcrete": (*cvErr)(nil)}},
		{"any", conv.RAny, conv.PAny, map[string]interface{}{"nil": nil, "concrete": conv.S{3, "c"}, "nilconcrete": (*conv.S)(nil)},
			map[string]interface{}{"concrete": conv.S{3, "c"}, "nilconcrete": (*conv.S)(nil)}},
		{"slice", conv.RSlice, conv.PSlice, map[string]interface{}{"nil": nil, "typednil": []int(nil), "val": []int{1, 2}, "diffsize": (*conv.S)(nil)}, map[string]interface{}{"val": []int{1, 2}}},
		{"map", conv.RMap, conv.PMap, map[string]interface{}{"nil": nil, "typednil": map[string]int(nil), "val": map[string]int{"a": 1}, "diffsize": []int(nil)}, map[string]interface{}{"val": map[string]int{"a": 1}}},
		{"chan", conv.RChan, conv.PChan, map[string]interface{}{"nil": nil, "typednil": (chan int)(nil), "val": ch, "otherkind": many{int32(7), "a string", conv.SBig{1, "a", 2}}}, map[string]interface{}{"val": ch}},
		{"func", conv.RFunc, conv.PFunc, map[string]interface{}{"nil": nil, "typednil": (func() int)(nil), "val": cvFn, "otherkind": many{int32(7), "a string", conv.SBig{1, "a", 2}}}, map[string]interface{}{"val": cvFn}},
		{"struct", conv.RStruct, conv.PStruct,
			map[string]interface{}{"nil": nil, "zero": conv.S{}, "val": conv.S{1, "a"}, "lookalike": conv.SL{2, "b"}, "samesize": conv.SX{A: 5}, "diffsize": conv.SBig{1, "a", 2},
				"otherkind": many{&conv.S{1, "a"}, int32(7), "a string", 5, true}},
			map[string]interface{}{"val": conv.S{1, "a"}, "lookalike": conv.S{2, "b"}}},
		{"handle", conv.RHandle, conv.PHandle,
			map[string]interface{}{"nil": nil, "zero": conv.H{}, "val": conv.H{P: hs}, "lookalike": conv.HL{P: hs},
				"otherkind": many{int32(7), "a string", true, []int{1, 2}}},
			map[string]interface{}{"val": conv.H{P: hs}, "lookalike": conv.H{P: hs}}},
		{"array", conv.RArr, conv.PArr, map[string]interface{}{"nil": nil, "zero": [2]int{}, "val": [2]int{1, 2}, "diffsize": [3]int{1, 2, 3}}, map[string]interface{}{"val": [2]int{1, 2}}},
		{"int", conv.RInt, conv.PInt, map[string]interface{}{"nil": nil, "zero": 0, "val": 5, "samesize": uint(5), "diffsize": int32(5)}, map[string]interface{}{"val": 5}},
		{"float", conv.RFloat, conv.PFloat, map[string]interface{}{"nil": nil, "zero": 0.0, "val": 2.5, "samesize": int64(2), "diffsize": float32(2.5)}, map[string]interface{}{"val": 2.5}},
		{"string", conv.RStr, conv.PStr, map[string]interface{}{"nil": nil, "zero": "", "val": "a", "diffsize": 5}, map[string]interface{}{"val": "a"}},
		{"bool", conv.RBool, conv.PBool, map[string]interface{}{"nil": nil, "zero": false, "val": true, "diffsize": 5}, map[string]interface{}{"val": true}},
	}
}

func deliveredAs(class string, k convKind, got reflect.Value, sup interface{}) string {
	T := got.Type()
	want := reflect.Zero(T)
	if e, ok := k.expect[class]; ok {
		want = reflect.New(T).Elem()
		want.Set(reflect.ValueOf(e))
	}
	eq := func() bool {
		if T.Kind() == reflect.Func {
			if got.IsNil() || want.IsNil() {
				return got.IsNil() == want.IsNil()
			}
			return got.Pointer() == want.Pointer()
		}
		if T.Kind() == reflect.Chan || T.Kind() == reflect.Map && false {
			return got.Pointer() == want.Pointer()
		}
		return reflect.DeepEqual(got.Interface(), want.Interface())
	}
	if !eq() {
		return fmt.Sprintf("wrong-value(%v)", got)
	}
	switch class {
	case "nil":
		if !got.IsZero() {
			return "wrong-not-zero"
		}
		// a nil result of a nilable kind must compare equal to nil in the caller
		switch T.Kind() {
		case reflect.Interface, reflect.Ptr, reflect.Slice, reflect.Map, reflect.Chan, reflect.Func:
			if !got.IsNil() {
				return "wrong-not-nil"
			}
		}
		return "typedzero"
	case "concrete", "nilconcrete":
		if got.IsNil() || got.Elem().Type() != reflect.TypeOf(sup) {
			return "wrong-dynamic-type"
		}
		return "boxed"
	case "lookalike", "samesize":
		return "retyped"
	}
	return "same"
}

// TestVerifArgConv records, for every cell of the conversion table and every delivery path, what reaches the caller.
func TestVerifArgConv(t *testing.T) {
	out := os.Getenv("VERIF_OUT")
	if out == "" {
		t.Skip()
	}
	quiet()
	baseLogging()
	of, _ := os.Create(out)
	defer of.Close()
	bw := bufio.NewWriter(of)
	defer bw.Flush()
	enc := json.NewEncoder(bw)
	emit := func(kind, class, path, outcome string) {
		enc.Encode(map[string]string{"kind": kind, "class": class, "path": path, "outcome": outcome})
	}
	for _, k := range convKinds() {
		for class, sups := range k.sup {
			list, isMany := sups.(many)
			if !isMany {
				list = many{sups}
			}
			for _, sup := range list {
				for _, path := range []string{"return", "returns", "returns-late", "when"} {
					if path == "returns-late" && (k.sup["val"] == nil || (class != "diffsize" && class != "otherkind")) {
						continue
					}
					b := mocker.Create()
					outcome := ""
					cfg := catch(func() {
						switch path {
						case "return":
							b.Func(k.ret).Return(sup)
						case "returns":
							b.Func(k.ret).Returns(sup, sup)
						case "returns-late":
							b.Func(k.ret).Returns(k.sup["val"], sup)
						case "when":
							b.Func(k.par).When(sup).Return(9001)
						}
					})
					if cfg != "" {
						outcome = "rejected"
					} else {
						callp := catch(func() {
							if path == "when" {
								// the call passes the value the caller would have as K; it must match the condition
								T := reflect.TypeOf(k.par).In(0)
								a := reflect.Zero(T)
								if e, ok := k.expect[class]; ok {
									a = reflect.New(T).Elem()
									a.Set(reflect.ValueOf(e))
								}
								r := reflect.ValueOf(k.par).Call([]reflect.Value{a})
								if r[0].Int() == 9001 {
									outcome = map[string]string{"nil": "typedzero", "concrete": "boxed", "nilconcrete": "boxed", "lookalike": "retyped", "samesize": "retyped"}[class]
									if outcome == "" {
										outcome = "same"
									}
								} else {
									outcome = "wrong-no-match"
								}
								return
							}
							for i := 0; i < 2; i++ {
								r := reflect.ValueOf(k.ret).Call(nil)
								outcome = deliveredAs(class, k, r[0], sup)
								if outcome[0] == 'w' {
									return
								}
							}
						})
						if callp != "" {
							outcome = "panic-at-call"
							if len(callp) > 70 {
								callp = callp[:70]
							}
							outcome += ":" + callp
						}
					}
					catch(func() { b.Reset() })
					emit(k.name, class, path, outcome)
				}
			}
		}
	}
	// a VARIADIC parameter and several conditions: every condition of one call must see the caller's arguments as they were
	// passed (the k-th registered condition is compared after k-1 others have looked at the same argument list)
	type varPar struct {
		name string
		fn   interface{}
		vals []interface{}
	}
	p1, p2, p3 := &conv.S{1, "a"}, &conv.S{2, "b"}, &conv.S{3, "c"}
	for _, k := range []varPar{{"int", conv.PVInt, []interface{}{5, 6, 7}}, {"string", conv.PVStr, []interface{}{"ab", "cd", "ef"}},
		{"ptr", conv.PVPtr, []interface{}{p1, p2, p3}}} {
		for nargs := 1; nargs <= 2; nargs++ {
			b := mocker.Create()
			outcome := "same"
			p := catch(func() {
				wh := b.Func(k.fn).Return(9000)
				for i, v := range k.vals {
					cond := []interface{}{v}
					if nargs == 2 {
						cond = append(cond, k.vals[0])
					}
					wh = wh.When(cond...).Return(9001 + i)
				}
				for i := len(k.vals) - 1; i >= 0; i-- {
					T := reflect.TypeOf(k.fn).In(0).Elem()
					args := []reflect.Value{reflect.ValueOf(k.vals[i]).Convert(T)}
					if nargs == 2 {
						args = append(args, reflect.ValueOf(k.vals[0]).Convert(T))
					}
					if r := reflect.ValueOf(k.fn).Call(args)[0].Int(); r != int64(9001+i) {
						outcome = fmt.Sprintf("wrong-condition-%d-not-selected(got %d)", i+1, r)
						break
					}
				}
			})
			if p != "" {
				outcome = "panic:" + p
				if len(outcome) > 90 {
					outcome = outcome[:90]
				}
			}
			catch(func() { b.Reset() })
			emit(k.name, "val", fmt.Sprintf("when-variadic-%d-elements", nargs), outcome)
		}
	}
	// two UNEXPORTED methods of one struct stubbed by name one after the other (As(f).Return): each value must reach the callers of
	// its own method, typed as that method declares
	{
		b := mocker.Create()
		outcome := "same"
		p := catch(func() {
			b.Struct(&fn.S{}).ExportMethod("f").As(func(*fn.S, int) int { return 0 }).Return(9101)
			b.Struct(&fn.S{}).ExportMethod("g").As(func(*fn.S, int) int { return 0 }).Return(9102)
			s := &fn.S{Tag: 7}
			if r := s.CallUEM("g", 5); r != 9102 {
				outcome = fmt.Sprintf("wrong-second-method-got-%d", r)
			} else if r := s.CallUEM("f", 5); r != 9101 {
				outcome = fmt.Sprintf("wrong-first-method-got-%d", r)
			} else if r := s.CallUEM("f", 5); r != 9101 {
				outcome = fmt.Sprintf("wrong-first-method-second-call-got-%d", r)
			}
		})
		if p != "" {
			outcome = "panic:" + p
			if len(outcome) > 90 {
				outcome = outcome[:90]
			}
		}
		catch(func() { b.Reset() })
		emit("int", "val", "two-unexported-methods", outcome)
	}
	// SEQUENCES of interface-typed results: distinct concrete values given to Returns / Return+AndReturn must come back one after the
	// other, each as itself (every configured value keeps a box of its own), also when a condition's sequence is interleaved
	e1, e2, e3 := errors.New("e1"), errors.New("e2"), &cvErr{"e3"}
	for _, form := range []string{"returns", "return-andreturn", "default-and-condition"} {
		b := mocker.Create()
		outcome := "boxed"
		p := catch(func() {
			var want []error
			switch form {
			case "returns":
				b.Func(conv.RErr).Returns(e1, e2, e3)
				want = []error{e1, e2, e3, e3}
			case "return-andreturn":
				b.Func(conv.RErr).Return(e1).AndReturn(e2).AndReturn(e3)
				want = []error{e1, e2, e3, e3}
			default:
				b.Func(conv.RErr).Returns(e1, e2)
				b2 := mocker.Create()
				defer b2.Reset()
				b2.Func(conv.RAny).Returns(conv.S{1, "a"}, conv.S{2, "b"})
				if x := conv.RAny(); x != (conv.S{1, "a"}) {
					outcome = fmt.Sprintf("wrong-first-any(%v)", x)
				}
				want = []error{e1, e2, e2}
			}
			for i, w := range want {
				if got := conv.RErr(); got != w {
					outcome = fmt.Sprintf("wrong-call-%d-got-%v-want-%v", i+1, got, w)
					break
				}
			}
		})
		if p != "" {
			outcome = "panic:" + p
			if len(outcome) > 90 {
				outcome = outcome[:90]
			}
		}
		catch(func() { b.Reset() })
		emit("error", "concrete", "sequence-"+form, outcome)
	}
	// conditions on an INTERFACE method whose configuration was started in another style: the values given to When are compared as
	// the method's declared parameter types (the *IContext of the As() signature is not a parameter) whichever instruction came first
	for _, first := range []string{"return", "returns", "when"} {
		b := mocker.Create()
		outcome := "same"
		p := catch(func() {
			h := b.Interface(&ifc.J1).Method("Z").As(func(c *mocker.IContext, a int) int { return 0 })
			var w *mocker.When
			switch first {
			case "return":
				w = h.Return(9000)
			case "returns":
				w = h.Returns(9000, 9000)
			default:
				w = h.When(3).Return(9003)
			}
			w.When(7).Return(9007).When(8).Return(9008)
			if r := ifc.J1.Z(7); r != 9007 {
				outcome = fmt.Sprintf("wrong-condition-not-selected(Z(7)=%d)", r)
			} else if r := ifc.J1.Z(8); r != 9008 {
				outcome = fmt.Sprintf("wrong-condition-not-selected(Z(8)=%d)", r)
			}
		})
		if p != "" {
			outcome = "panic:" + p
			if len(outcome) > 90 {
				outcome = outcome[:90]
			}
		}
		catch(func() { b.Reset() })
		emit("int", "val", "iface-when-after-"+first, outcome)
	}
	// selectivity of conditions written as plain constants (type int) on integer parameters of other kinds: the value
	// is compared as a value of the declared type, exactly - it matches itself and not its neighbours, however large
	type intPar struct {
		name string
		fn   interface{}
	}
	for _, k := range []intPar{{"int", conv.PInt}, {"int64", conv.PI64}, {"uint64", conv.PU64}, {"uint", conv.PUint}, {"uintptr", conv.PUptr}} {
		for _, v := range []int{5, 1<<31 - 2, 1<<53 + 1, 1<<60 + 2, 1700000000000000001, 1<<63 - 2} {
			T := reflect.TypeOf(k.fn).In(0)
			if T.Kind() == reflect.Int32 && v > 1<<31-1 {
				continue
			}
			b := mocker.Create()
			outcome := "exact"
			p := catch(func() {
				b.Func(k.fn).Return(9000)
				b.Func(k.fn).When(v).Return(9001)
				call := func(x int) int64 {
					a := reflect.New(T).Elem()
					if T.Kind() == reflect.Int || T.Kind() == reflect.Int64 || T.Kind() == reflect.Int32 {
						a.SetInt(int64(x))
					} else {
						a.SetUint(uint64(x))
					}
					return reflect.ValueOf(k.fn).Call([]reflect.Value{a})[0].Int()
				}
				switch {
				case call(v) != 9001:
					outcome = "wrong-no-match"
				case call(v+1) != 9000:
					outcome = fmt.Sprintf("wrong-neighbour-matches(%d+1)", v)
				case call(v-1) != 9000:
					outcome = fmt.Sprintf("wrong-neighbour-matches(%d-1)", v)
				}
			})
			if p != "" {
				outcome = "panic:" + p
				if len(outcome) > 90 {
					outcome = outcome[:90]
				}
			}
			catch(func() { b.Reset() })
			emit(k.name, "intconst", "when-select", outcome)
		}
	}
}
