//go:build go1.18

package drv

import (
	"bufio"
	"bytes"
	"debug/elf"
	"debug/gosym"
	"fmt"
	"os"
	"strings"
	"sync"
	"unsafe"
)

// image: passive projection of the executable image (never perturbs what it observes).
type image struct {
	lo, hi uintptr
	snap   []byte
	funcs  map[string][2]uintptr // name -> entry, end
}

var (
	imgOnce sync.Once
	img     *image
)

func theImage() *image {
	imgOnce.Do(func() {
		exe, err := os.Executable()
		if err != nil {
			panic(err)
		}
		f, err := elf.Open(exe)
		if err != nil {
			panic(err)
		}
		defer f.Close()
		text := f.Section(".text")
		pcln, err := f.Section(".gopclntab").Data()
		if err != nil {
			panic(err)
		}
		tab, err := gosym.NewTable(nil, gosym.NewLineTable(pcln, text.Addr))
		if err != nil {
			panic(err)
		}
		im := &image{lo: uintptr(text.Addr), hi: uintptr(text.Addr + text.Size), funcs: map[string][2]uintptr{}}
		for _, fn := range tab.Funcs {
			// (an assembly function and its ABI wrapper carry the same name in the pclntab: keep the larger, the body)
			if old, ok := im.funcs[fn.Name]; ok && old[1]-old[0] >= uintptr(fn.End-fn.Entry) {
				continue
			}
			im.funcs[fn.Name] = [2]uintptr{uintptr(fn.Entry), uintptr(fn.End)}
		}
		im.snap = make([]byte, im.hi-im.lo)
		copy(im.snap, im.live())
		img = im
	})
	return img
}

func (im *image) live() []byte {
	return unsafe.Slice((*byte)(unsafe.Pointer(im.lo)), int(im.hi-im.lo))
}

// resnap is used after a behaviour that legitimately leaves placeholder bodies rewritten.
func (im *image) pristine(addr uintptr, n int) []byte {
	return im.snap[addr-im.lo : addr-im.lo+uintptr(n)]
}

func (im *image) same(addr uintptr, n int) bool {
	return bytes.Equal(im.live()[addr-im.lo:addr-im.lo+uintptr(n)], im.pristine(addr, n))
}

type rng struct{ lo, hi uintptr }

// diff returns the byte ranges (absolute addresses) where the live image differs from the snapshot.
func (im *image) diff() []rng {
	live := im.live()
	var out []rng
	const chunk = 4096
	for off := 0; off < len(live); off += chunk {
		end := off + chunk
		if end > len(live) {
			end = len(live)
		}
		if bytes.Equal(live[off:end], im.snap[off:end]) {
			continue
		}
		for i := off; i < end; i++ {
			if live[i] != im.snap[i] {
				a := im.lo + uintptr(i)
				if n := len(out); n > 0 && out[n-1].hi == a {
					out[n-1].hi = a + 1
				} else {
					out = append(out, rng{a, a + 1})
				}
			}
		}
	}
	return out
}

// outside reports differing ranges not covered by the allowed ranges.
func (im *image) outside(allowed []rng) string {
	if os.Getenv("VERIF_NOMMAP") == "1" {
		// executable mappings are refused in this process: interface stubs are written into goom's built-in reserve, which IS
		// a function of the text image (stub.Placeholder and the padding the linker put behind it)
		for n, r := range im.funcs {
			if strings.Contains(n, "internal/bytecode/stub.Placeholder") {
				allowed = append(append([]rng{}, allowed...), rng{r[0], r[1]})
			}
		}
	}
	var bad []string
	for _, d := range im.diff() {
		for a := d.lo; a < d.hi; a++ {
			ok := false
			for _, al := range allowed {
				if a >= al.lo && a < al.hi {
					ok = true
					break
				}
			}
			if !ok {
				bad = append(bad, fmt.Sprintf("0x%x(%s)", a, im.owner(a)))
				break
			}
		}
	}
	if len(bad) == 0 {
		return "ok"
	}
	return "changed:" + strings.Join(bad, ",")
}

func (im *image) owner(a uintptr) string {
	for n, r := range im.funcs {
		if a >= r[0] && a < r[1] {
			return fmt.Sprintf("%s+%d", n, a-r[0])
		}
	}
	return "?"
}

// perms returns a description of every mapping of the executable image that is writable or not
// executable while overlapping .text ("ok" when .text is r-x throughout).
func (im *image) perms() string {
	f, err := os.Open("/proc/self/maps")
	if err != nil {
		return "ok"
	}
	defer f.Close()
	sc := bufio.NewScanner(f)
	var bad []string
	for sc.Scan() {
		var lo, hi uintptr
		var perm string
		if _, err := fmt.Sscanf(sc.Text(), "%x-%x %s", &lo, &hi, &perm); err != nil {
			continue
		}
		if hi <= im.lo || lo >= im.hi {
			continue
		}
		if perm[0] != 'r' || perm[1] != '-' || perm[2] != 'x' {
			bad = append(bad, fmt.Sprintf("%x-%x:%s", lo, hi, perm))
		}
	}
	if len(bad) == 0 {
		return "ok"
	}
	return strings.Join(bad, ",")
}

// entryState classifies the first 13 bytes of a function: "P" pristine, "J" a complete amd64 entry
// jump (nop; movabs rdx,imm64; jmp [rdx]), otherwise "corrupt:<hex>".
func (im *image) entryState(addr uintptr) string {
	if im.same(addr, 13) {
		return "P"
	}
	b := im.live()[addr-im.lo : addr-im.lo+13]
	if b[0] == 0x90 && b[1] == 0x48 && b[2] == 0xBA && b[11] == 0xFF && b[12] == 0x22 {
		return "J"
	}
	return fmt.Sprintf("corrupt:%x", b)
}
