//go:build go1.18

package drv

import (
	"fmt"

	mocker "github.com/tencent/goom"
	"github.com/tencent/goom/zzverif/corpus/fn"
	"github.com/tencent/goom/zzverif/corpus/fn2"
)

//go:noinline
func dup(a int) int {
	if a < -10000 {
		fmt.Println("never")
	}
	return a + 3300
}

// dupS: an unexported struct type whose name (and method name) also exists in fn and fn2
type dupS struct{ Tag int }

//go:noinline
func (p *dupS) Get(a int) int {
	if a < -10000 {
		fmt.Println("never")
	}
	return a + 3350 + p.Tag
}

var dupInst = &dupS{}

// pkgWorld binds spec/Pkg.tla: "cur" = this package, "fn", "fn2".
type pkgWorld struct{ b map[string]*mocker.Builder }

func (w *pkgWorld) Name() string { return "pkg" }
func (w *pkgWorld) Begin()       { w.b = map[string]*mocker.Builder{} }
func (w *pkgWorld) End() string {
	for _, b := range w.b {
		catch(func() { b.Reset() })
	}
	return ""
}
// pkgBuilders counts the builders made: every other one comes from mocker.New() (documented as equivalent to Create(); both find
// the caller's package by walking the stack)
var pkgBuilders int

func (w *pkgWorld) builder(b string) *mocker.Builder {
	if w.b[b] == nil {
		pkgBuilders++
		if pkgBuilders%2 == 0 {
			w.b[b] = mocker.New()
		} else {
			w.b[b] = mocker.Create()
		}
	}
	return w.b[b]
}
func (w *pkgWorld) Do(st Step) string {
	return catch(func() {
		b := w.builder(st.Str("b"))
		switch st.Str("op") {
		case "SetPkg":
			b.Pkg(map[string]string{"fn": fn.Pkg, "fn2": fn2.Pkg}[st.Str("p")])
		case "MockDup":
			base := 10000 + 100*st.Int("id")
			if st.Str("k") == "method" {
				// (the receiver type differs per package: a pointer is a pointer)
				b.ExportStruct("*dupS").Method("Get").Apply(func(_ *dupS, a int) int { return base + a })
			} else {
				b.ExportFunc("dup").Apply(func(a int) int { return base + a })
			}
		case "LookupOther":
			b.Func(fn.F)
		case "Reset":
			b.Reset()
		}
	})
}
func (w *pkgWorld) Observe(st Step) map[string]string {
	out := map[string]string{}
	exp, _ := st["exp"].(map[string]interface{})
	calls := map[string]func(int) int{"cur": dup, "fn": fn.CallDup, "fn2": fn2.CallDup}
	orig := map[string]int{"cur": 3300, "fn": 1100, "fn2": 2200}
	expm, _ := st["expm"].(map[string]interface{})
	callsM := map[string]func(int) int{"cur": dupInst.Get, "fn": fn.CallDupM, "fn2": fn2.CallDupM}
	origM := map[string]int{"cur": 3350, "fn": 1150, "fn2": 2250}
	for p, want := range expm {
		r := callsM[p](7)
		got := fmt.Sprintf("?%d", r)
		if r == origM[p]+7 {
			got = "orig"
		} else if r >= 10000 && (r-10000)%100 == 7 {
			got = fmt.Sprintf("repl:%d", (r-10000)/100)
		}
		if got != fmt.Sprint(want) {
			out["!dup"] = fmt.Sprintf("(*dupS).Get of package %s: required %v, real %s", p, want, got)
			return out
		}
	}
	for p, want := range exp {
		r := calls[p](7)
		got := fmt.Sprintf("?%d", r)
		if r == orig[p]+7 {
			got = "orig"
		} else if r >= 10000 && (r-10000)%100 == 7 {
			got = fmt.Sprintf("repl:%d", (r-10000)/100)
		}
		if got != fmt.Sprint(want) {
			out["!dup"] = fmt.Sprintf("dup of package %s: required %v, real %s", p, want, got)
			return out
		}
	}
	out["!dup"] = "ok"
	// PkgName() shows the override until the next lookup
	wantPkg := map[string]string{"cur": "github.com/tencent/goom/zzverif/drv", "fn": fn.Pkg, "fn2": fn2.Pkg}[st.Str("pkgname")]
	if got := w.builder(st.Str("b")).PkgName(); got != wantPkg {
		out["!pkgname"] = "PkgName() = " + got + ", required " + wantPkg
	} else {
		out["!pkgname"] = "ok"
	}
	return out
}
func init() { worlds["pkg"] = func() []World { return []World{&pkgWorld{}} } }
