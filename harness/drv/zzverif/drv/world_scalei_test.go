//go:build go1.18

package drv

import (
	"fmt"
	"strings"

	mocker "github.com/tencent/goom"
	"github.com/tencent/goom/zzverif/corpus/ifc"
)

// scaleIWorld binds spec/Scale.tla, instance ScaleI: 12 interface variables x 12 methods (target t = (v-1)*12 + m, object =
// the variable), mocked in groups by one shared builder or by a builder per variable. After EVERY step every method of every
// variable is called: a mocked method answers its replacement, an unmocked method of a mocked variable panics with "method
// not implements", an untouched variable answers its original implementation; the text image must not change at all.
type scaleIWorld struct {
	shared *mocker.Builder
	fresh  map[int]*mocker.Builder
}

func (w *scaleIWorld) Name() string { return "scale-iface" }
func (w *scaleIWorld) Begin() {
	theImage()
	ifc.RestoreBig()
	w.shared = mocker.Create()
	w.fresh = map[int]*mocker.Builder{}
}

func scaleIMock(b *mocker.Builder, t int, kind string, id int) {
	v, m := (t-1)/12+1, (t-1)%12+1
	h := b.Interface(&ifc.BigV[v-1]).Method(ifc.BigNames[m-1])
	if kind == "apply" {
		h.Apply(func(ctx *mocker.IContext, a int) int { return id*100000 + t*100 + a })
	} else {
		h.As(func(ctx *mocker.IContext, a int) int { return 0 }).Return(id*100000 + t*100 + 7)
	}
}

func (w *scaleIWorld) Do(st Step) string {
	return catch(func() {
		id := st.Int("id")
		switch st.Str("op") {
		case "MockShared":
			for _, t := range maskIdx(st["is"]) {
				scaleIMock(w.shared, t, st.Str("kind"), id)
			}
		case "MockFresh":
			for _, t := range maskIdx(st["is"]) {
				v := (t-1)/12 + 1
				if w.fresh[v] == nil {
					w.fresh[v] = mocker.Create()
				}
				scaleIMock(w.fresh[v], t, st.Str("kind"), id)
			}
		case "ResetShared":
			w.shared.Reset()
		case "ResetFresh":
			for _, v := range maskIdx(st["os"]) {
				w.fresh[v].Reset()
			}
		default:
			panic("scaleIWorld op " + st.Str("op"))
		}
	})
}

func (w *scaleIWorld) Observe(st Step) map[string]string {
	out := map[string]string{"!scale": "ok"}
	exp := ints(st["exp"])
	for t := 1; t <= len(exp) && out["!scale"] == "ok"; t++ {
		v, m := (t-1)/12+1, (t-1)%12+1
		if ifc.BigV[v-1] == nil {
			out["!scale"] = fmt.Sprintf("variable %d is nil", v)
			break
		}
		var r int
		p := catch(func() { r = ifc.CallBig(v, m, 7) })
		got := -2
		switch {
		case p != "" && strings.Contains(p, "not implements"):
			got = -1
		case p != "":
		case r == ifc.BigOrig(v, m, 7):
			got = 0
		case r >= 100000 && r%100000 == t*100+7:
			got = r / 100000
		}
		if got != exp[t-1] {
			out["!scale"] = fmt.Sprintf("variable %d method %s: required %d (0 = original, -1 = 'method not implements', n = replacement n), real %d (returned %d %s)",
				v, ifc.BigNames[m-1], exp[t-1], got, r, p)
		}
	}
	out["!image"] = theImage().outside(nil)
	return out
}

func (w *scaleIWorld) End() string {
	catch(func() { w.shared.Reset() })
	for _, b := range w.fresh {
		catch(func() { b.Reset() })
	}
	res := ""
	for v := 1; v <= 12 && res == ""; v++ {
		for m := 1; m <= 12; m++ {
			var r int
			if p := catch(func() { r = ifc.CallBig(v, m, 7) }); p != "" || r != ifc.BigOrig(v, m, 7) {
				res = fmt.Sprintf("after the final resets variable %d method %d answers %d %s", v, m, r, p)
				break
			}
		}
	}
	ifc.RestoreBig()
	return res
}

func init() { worlds["scale-iface"] = func() []World { return []World{&scaleIWorld{}} } }
