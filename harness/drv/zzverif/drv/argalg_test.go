//go:build go1.18

package drv

import (
	"bufio"
	"encoding/json"
	"errors"
	"fmt"
	mocker "github.com/tencent/goom"
	"github.com/tencent/goom/zzverif/corpus/sig"
	"math"
	"math/rand"
	"os"
	"reflect"
	"strings"
	"testing"

	"github.com/tencent/goom/arg"
)

type aS struct {
	A int
	B string
	p *int
}

// composites whose pointers / interfaces sit one level further down
type aIn struct{ P *int }
type aOut struct {
	X  int
	In aIn
}
type aArrP struct{ Ps [2]*int }
type aBody struct{ V interface{} }
type aIf struct{ Body aBody }

type aNode struct {
	V    int
	Next *aNode
}

type aErr struct{ s string }

func (e *aErr) Error() string { return "aErr" }

func afn1() int { return 1 }
func afn2() int { return 2 }

type argPool struct {
	kind string
	typ  reflect.Type
	vals []interface{} // nil entries mean the untyped nil (nilable kinds)
}

func ip(i int) *int { return &i }

func argPools(rng *rand.Rand, extra int) []argPool {
	var ps []argPool
	add := func(kind string, sample interface{}, vals ...interface{}) {
		ps = append(ps, argPool{kind, reflect.TypeOf(sample), vals})
	}
	add("int", int(0), 0, 1, -1, math.MaxInt64, math.MinInt64, 1, 42)
	add("int8", int8(0), int8(0), int8(1), int8(-1), int8(127), int8(-128), int8(1))
	add("int16", int16(0), int16(0), int16(32767), int16(-32768), int16(7), int16(7))
	add("int32", int32(0), int32(0), int32(math.MaxInt32), int32(math.MinInt32), int32(-5), int32(-5))
	add("int64", int64(0), int64(0), int64(math.MaxInt64), int64(math.MinInt64), int64(1)<<53, int64(1)<<53+1, int64(1)<<53)
	add("uint", uint(0), uint(0), uint(1), uint(math.MaxUint64), uint(math.MaxUint64)-1, uint(1))
	add("uint8", uint8(0), uint8(0), uint8(255), uint8(128), uint8(128))
	add("uint16", uint16(0), uint16(0), uint16(65535), uint16(256), uint16(256))
	add("uint32", uint32(0), uint32(0), uint32(math.MaxUint32), uint32(1)<<31, uint32(1)<<31)
	add("uint64", uint64(0), uint64(0), uint64(math.MaxUint64), uint64(1)<<63, uint64(1)<<63-1, uint64(1)<<63)
	add("uintptr", uintptr(0), uintptr(0), uintptr(1), ^uintptr(0), uintptr(1))
	add("float32", float32(0), float32(0), float32(1), float32(-1), float32(0.1), float32(1e30), float32(0.1), float32(math.MaxFloat32))
	add("float64", float64(0), 0.0, 1.0, -1.0, 0.1, 0.1+0.2, 0.3, 1e21, 1e21, math.MaxFloat64, math.SmallestNonzeroFloat64, float64(1<<53), float64(1<<53)+2)
	add("string", "", "", "a", "A", "1", "1.0", "true", "0x1", "a", "é", "é")
	add("bool", false, true, false, true)
	add("struct", aS{}, aS{}, aS{1, "x", nil}, aS{1, "x", nil}, aS{1, "y", nil}, aS{1, "x", ip(3)}, aS{1, "x", ip(3)}, aS{1, "x", ip(4)})
	add("nested", aOut{}, aOut{}, aOut{1, aIn{ip(3)}}, aOut{1, aIn{ip(3)}}, aOut{1, aIn{ip(4)}}, aOut{1, aIn{nil}}, aOut{2, aIn{ip(3)}})
	add("arrptr", aArrP{}, aArrP{}, aArrP{[2]*int{ip(1), ip(2)}}, aArrP{[2]*int{ip(1), ip(2)}}, aArrP{[2]*int{ip(1), ip(3)}}, aArrP{[2]*int{ip(1), nil}})
	add("nestediface", aIf{}, aIf{}, aIf{aBody{[]int{1}}}, aIf{aBody{[]int{1}}}, aIf{aBody{[]int{2}}}, aIf{aBody{3}}, aIf{aBody{3}}, aIf{aBody{map[string]int{"a": 1}}}, aIf{aBody{map[string]int{"a": 1}}})
	add("array", [2]int{}, [2]int{}, [2]int{1, 2}, [2]int{2, 1}, [2]int{1, 2})
	add("slice", []int{}, []int(nil), []int{}, []int{1}, []int{1}, []int{1, 2}, nil)
	// slices over ONE backing array: same first element, different lengths / offsets (equal only when the elements are)
	buf := []int{1, 2, 1, 2, 0, 0}
	add("slicealias", []int{}, buf[:0], buf[:2], buf[:4], buf[:2], buf[2:4], buf[:2:2], []int{1, 2}, buf[4:5], buf[5:6], buf[:0:0])
	add("structalias", aBody{}, aBody{buf[:2]}, aBody{buf[:4]}, aBody{buf[2:4]}, aBody{buf[:2]}, aBody{[]int{1, 2}}, aBody{buf[:0]})
	str := "abab"
	add("stralias", "", str[:2], str[:4], str[2:4], str[:0], "ab")
	// SCALE: long slices / strings, big maps, deep chains - equal copies and copies that differ late (last element, element 16 / 17)
	mk := func(n int, at, val int) []int {
		v := make([]int, n)
		for i := range v {
			v[i] = i * 3
		}
		if at >= 0 {
			v[at] = val
		}
		return v
	}
	add("longslice", []int{}, mk(1000, -1, 0), mk(1000, -1, 0), mk(1000, 999, -1), mk(1000, 16, -1), mk(1000, 17, -1), mk(999, -1, 0), mk(1001, -1, 0), mk(1000, 0, -1))
	ls := strings.Repeat("abcdefgh", 600)
	add("longstring", "", ls, ls+"", ls[:len(ls)-1]+"X", "X"+ls[1:], ls[:len(ls)-1], ls+"h")
	bm := func(n int, k string, v int) map[string]int {
		m := map[string]int{}
		for i := 0; i < n; i++ {
			m[fmt.Sprint("k", i)] = i
		}
		if k != "" {
			m[k] = v
		}
		return m
	}
	add("bigmap", map[string]int{}, bm(300, "", 0), bm(300, "", 0), bm(300, "k299", -1), bm(300, "k17", -1), bm(299, "", 0), bm(299, "other", 299))
	chain := func(n, last int) *aNode {
		var h *aNode
		for i := n; i >= 1; i-- {
			v := i
			if i == n {
				v = last
			}
			h = &aNode{V: v, Next: h}
		}
		return h
	}
	add("deepchain", &aNode{}, chain(40, 40), chain(40, 40), chain(40, -1), chain(39, 39), chain(41, 41), (*aNode)(nil), nil)
	add("map", map[string]int{}, map[string]int(nil), map[string]int{}, map[string]int{"a": 1}, map[string]int{"a": 1}, map[string]int{"a": 2}, nil)
	add("ptrint", ip(0), ip(1), ip(1), ip(2), (*int)(nil), nil)
	add("ptrstruct", &aS{}, &aS{1, "x", nil}, &aS{1, "x", nil}, &aS{2, "x", nil}, (*aS)(nil), nil)
	e1 := errors.New("e")
	add("error", (*error)(nil), e1, e1, errors.New("e"), errors.New("f"), nil)
	ps[len(ps)-1].typ = reflect.TypeOf((*error)(nil)).Elem()
	add("any", (*interface{})(nil), 1, 1, 2, "a", "a", aS{1, "x", nil}, aS{1, "x", nil}, 1.5, true, nil, []int{1}, []int{1}, ip(1), ip(1))
	ps[len(ps)-1].typ = reflect.TypeOf((*interface{})(nil)).Elem()
	// pointers of ONE dynamic type behind an interface-typed parameter, typed nil among them
	add("anyptr", (*interface{})(nil), ip(1), ip(1), ip(2), (*int)(nil), (*int)(nil), nil, &aS{1, "x", nil}, &aS{1, "x", nil}, (*aS)(nil))
	ps[len(ps)-1].typ = reflect.TypeOf((*interface{})(nil)).Elem()
	pe1 := &aErr{"e"}
	add("errorptr", (*error)(nil), pe1, pe1, &aErr{"e"}, &aErr{"f"}, (*aErr)(nil), nil)
	ps[len(ps)-1].typ = reflect.TypeOf((*error)(nil)).Elem()
	add("anymixed", (*interface{})(nil), 1, "1", 1.0, int64(1), true, "true", 0, "0", false, "")
	ps[len(ps)-1].typ = reflect.TypeOf((*interface{})(nil)).Elem()
	add("func", afn1, afn1, afn1, afn2, (func() int)(nil), nil)
	c1 := make(chan int)
	add("chan", c1, c1, c1, make(chan int), (chan int)(nil), nil)
	for i := range ps {
		for j := 0; j < extra; j++ {
			switch ps[i].kind {
			case "int":
				ps[i].vals = append(ps[i].vals, int(rng.Int63())-int(rng.Int63()))
			case "int64":
				ps[i].vals = append(ps[i].vals, rng.Int63()-rng.Int63())
			case "uint64":
				ps[i].vals = append(ps[i].vals, rng.Uint64())
			case "float64":
				ps[i].vals = append(ps[i].vals, rng.NormFloat64()*math.Pow(10, float64(rng.Intn(40)-20)))
			case "float32":
				ps[i].vals = append(ps[i].vals, float32(rng.NormFloat64()))
			case "string":
				ps[i].vals = append(ps[i].vals, fmt.Sprint(rng.Intn(50)))
			case "struct":
				ps[i].vals = append(ps[i].vals, aS{rng.Intn(3), fmt.Sprint(rng.Intn(2)), nil})
			case "slice":
				ps[i].vals = append(ps[i].vals, []int{rng.Intn(3), rng.Intn(2)})
			}
		}
	}
	return ps
}

// apiVariadicIn: on a REAL mock of a variadic function, In({a, b}, {c, d}) registered AFTER a When condition that carries variadic
// values (and never matches): the In clause must still accept exactly the union of the element-wise conjunctions.
func apiVariadicIn(rng *rand.Rand, enc *json.Encoder) {
	vals := []int{0, 1, -1, 42, 7}
	for trial := 0; trial < 40; trial++ {
		pick := func() int { return rng.Intn(len(vals)) }
		ia, ib, ic, id, ix, iy := pick(), pick(), pick(), pick(), pick(), pick()
		if trial%2 == 0 {
			ix, iy = ia, ib
		}
		ev := argEv{Kind: "int", Expr: "inv", Pat: []int{ia, ib, ic, id}, Arg: ix, Arg2: iy, Same: true, Res: []bool{},
			PatS: fmt.Sprint("mock of sig.V1: ", []int{vals[ia], vals[ib], vals[ic], vals[id]}), ArgS: fmt.Sprint([]int{vals[ix], vals[iy]})}
		b := mocker.Create()
		p := catch(func() {
			wh := b.Func(sig.V1).Return(-1)
			wh = wh.When(1000, 2000, 3000).Return(-2) // a condition with variadic values, registered first, matching no call
			wh.In([]interface{}{vals[ia], vals[ib]}, []interface{}{vals[ic], vals[id]}).Return(9)
			for k := 0; k < 3; k++ {
				ev.Res = append(ev.Res, sig.V1(vals[ix], vals[iy]) == 9)
			}
		})
		if p != "" {
			ev.Err = p
			if len(ev.Err) > 100 {
				ev.Err = ev.Err[:100]
			}
		}
		catch(func() { b.Reset() })
		enc.Encode(ev)
	}
}

func goEqual(kind string, a, b interface{}) bool {
	if kind == "func" {
		va, vb := reflect.ValueOf(a), reflect.ValueOf(b)
		an, bn := !va.IsValid() || va.IsNil(), !vb.IsValid() || vb.IsNil()
		if an || bn {
			return an && bn
		}
		return va.Pointer() == vb.Pointer()
	}
	// nilable kinds: the untyped nil equals the typed nil ("two nils are equal")
	nilOf := func(x interface{}) bool {
		if x == nil {
			return true
		}
		v := reflect.ValueOf(x)
		switch v.Kind() {
		case reflect.Ptr, reflect.Map, reflect.Slice, reflect.Chan, reflect.Func, reflect.Interface:
			return v.IsNil()
		}
		return false
	}
	if nilOf(a) || nilOf(b) {
		return nilOf(a) && nilOf(b)
	}
	return reflect.DeepEqual(a, b)
}

// typed value of the pool's static type holding v
func typedValue(t reflect.Type, v interface{}) reflect.Value {
	rv := reflect.New(t).Elem()
	if v != nil {
		rv.Set(reflect.ValueOf(v))
	}
	return rv
}

type argEv struct {
	Kind    string `json:"kind"`
	Expr    string `json:"expr"`
	Pat     []int  `json:"pat"`
	Arg     int    `json:"arg"`
	Res     []bool `json:"res"`
	Rev     bool   `json:"rev"`
	Err     string `json:"err"`
	PatS    string `json:"pats"`
	ArgS    string `json:"args"`
	Same    bool   `json:"same"`    // pattern(s) and argument have the same dynamic type (or are nil)
	Arg2    int    `json:"arg2"`    // expr "inv": the class of the variadic element
	Altered bool   `json:"altered"` // expr "inv": the argument list handed to Eval was changed by the evaluation
}

func sameDyn(a, b interface{}) bool {
	if a == nil || b == nil {
		// behind an interface-typed parameter the untyped nil and a typed nil pointer have different dynamic types
		// (in Go, interface{}((*int)(nil)) != nil); for a parameter of the pointer type itself nil IS the typed nil
		o := a
		if o == nil {
			o = b
		}
		if o != nil && curPoolIface {
			if v := reflect.ValueOf(o); (v.Kind() == reflect.Ptr || v.Kind() == reflect.Map || v.Kind() == reflect.Slice ||
				v.Kind() == reflect.Func || v.Kind() == reflect.Chan) && v.IsNil() {
				return false
			}
		}
		return true
	}
	return reflect.TypeOf(a) == reflect.TypeOf(b)
}

// curPoolIface: the pool being evaluated has an interface static type
var curPoolIface bool

func evalExpr(e arg.Expr, t reflect.Type, y reflect.Value, times int) (res []bool, errs string) {
	defer func() {
		if p := recover(); p != nil {
			errs = "panic:" + fmt.Sprint(p)
		}
	}()
	if err := e.Resolve([]reflect.Type{t}, false); err != nil {
		return nil, "resolve:" + err.Error()
	}
	for i := 0; i < times; i++ {
		r, err := e.Eval([]reflect.Value{y}, false)
		if err != nil {
			return res, "eval:" + err.Error()
		}
		res = append(res, r)
	}
	return res, ""
}

func short(v interface{}) string {
	s := fmt.Sprintf("%T(%v)", v, v)
	if len(s) > 60 {
		s = s[:60]
	}
	return s
}

// TestVerifArgAlgebra records evaluations of Equals / In / Any over value pools of every kind.
func TestVerifArgAlgebra(t *testing.T) {
	out := os.Getenv("VERIF_OUT")
	if out == "" {
		t.Skip()
	}
	rng := rand.New(rand.NewSource(int64(envIntOr("VERIF_SEED", 1))))
	of, _ := os.Create(out)
	defer of.Close()
	bw := bufio.NewWriterSize(of, 1<<20)
	defer bw.Flush()
	enc := json.NewEncoder(bw)
	apiVariadicIn(rng, enc)
	for _, p := range argPools(rng, envIntOr("VERIF_EXTRA", 4)) {
		curPoolIface = p.typ.Kind() == reflect.Interface
		n := len(p.vals)
		class := make([]int, n)
		for i := range class {
			class[i] = -1
		}
		nc := 0
		for i := 0; i < n; i++ {
			if class[i] >= 0 {
				continue
			}
			nc++
			class[i] = nc
			for j := i + 1; j < n; j++ {
				if class[j] < 0 && goEqual(p.kind, p.vals[i], p.vals[j]) {
					class[j] = nc
				}
			}
		}
		for i := 0; i < n; i++ {
			for j := 0; j < n; j++ {
				y := typedValue(p.typ, p.vals[j])
				res, errs := evalExpr(arg.Equals(p.vals[i]), p.typ, y, 3)
				rev, errs2 := evalExpr(arg.Equals(p.vals[j]), p.typ, typedValue(p.typ, p.vals[i]), 1)
				ev := argEv{Kind: p.kind, Expr: "eq", Pat: []int{class[i]}, Arg: class[j], Res: res, Err: errs + errs2, PatS: short(p.vals[i]), ArgS: short(p.vals[j]), Same: sameDyn(p.vals[i], p.vals[j])}
				if len(rev) == 1 {
					ev.Rev = rev[0]
				}
				if ev.Res == nil {
					ev.Res = []bool{}
				}
				enc.Encode(ev)
			}
			// Any
			res, errs := evalExpr(arg.Any(), p.typ, typedValue(p.typ, p.vals[i]), 2)
			if res == nil {
				res = []bool{}
			}
			enc.Encode(argEv{Kind: p.kind, Expr: "any", Pat: []int{}, Arg: class[i], Res: res, Err: errs, ArgS: short(p.vals[i]), Same: true})
		}
		// In over random subsets
		for k := 0; k < 3*n; k++ {
			m := 1 + rng.Intn(3)
			var pats []interface{}
			var pc []int
			for q := 0; q < m; q++ {
				idx := rng.Intn(n)
				pats = append(pats, p.vals[idx])
				pc = append(pc, class[idx])
			}
			j := rng.Intn(n)
			same := true
			for _, pv := range pats {
				same = same && sameDyn(pv, p.vals[j])
			}
			res, errs := evalExpr(arg.In(pats...), p.typ, typedValue(p.typ, p.vals[j]), 3)
			if res == nil {
				res = []bool{}
			}
			enc.Encode(argEv{Kind: p.kind, Expr: "in", Pat: pc, Arg: class[j], Res: res, Err: errs, PatS: short(pats), ArgS: short(p.vals[j]), Same: same})
			// the same over a VARIADIC argument list f(x T, ys ...T) called with one variadic element: In({a, b}, {c, d}) evaluated
			// three times on ONE argument list [x, []T{y}] (as When.invoke hands it to every condition in turn): the answers
			// must not change and the list must still be what the caller passed
			if q := rng.Intn(n); true {
				ia, ib, ic, id := rng.Intn(n), rng.Intn(n), rng.Intn(n), rng.Intn(n)
				if rng.Intn(2) == 0 {
					ia, ib = j, q // make a hit likely
				}
				sameV := sameDyn(p.vals[ia], p.vals[j]) && sameDyn(p.vals[ic], p.vals[j]) && sameDyn(p.vals[ib], p.vals[q]) && sameDyn(p.vals[id], p.vals[q])
				ev := argEv{Kind: p.kind, Expr: "inv", Pat: []int{class[ia], class[ib], class[ic], class[id]}, Arg: class[j], Arg2: class[q], Same: sameV,
					PatS: short([]interface{}{p.vals[ia], p.vals[ib], p.vals[ic], p.vals[id]}), ArgS: short([]interface{}{p.vals[j], p.vals[q]}), Res: []bool{}}
				func() {
					defer func() {
						if pn := recover(); pn != nil {
							ev.Err = "panic:" + fmt.Sprint(pn)
						}
					}()
					in := arg.In([]interface{}{p.vals[ia], p.vals[ib]}, []interface{}{p.vals[ic], p.vals[id]})
					st := reflect.SliceOf(p.typ)
					if err := in.Resolve([]reflect.Type{p.typ, st}, true); err != nil {
						ev.Err = "resolve:" + err.Error()
						return
					}
					tail := reflect.MakeSlice(st, 1, 1)
					tail.Index(0).Set(typedValue(p.typ, p.vals[q]))
					input := []reflect.Value{typedValue(p.typ, p.vals[j]), tail} // len == cap, like the arguments of a MakeFunc callback
					for k := 0; k < 3; k++ {
						r, err := in.Eval(input, true)
						if err != nil {
							ev.Err = "eval:" + err.Error()
							return
						}
						ev.Res = append(ev.Res, r)
					}
					ev.Altered = len(input) != 2 || input[1].Kind() != reflect.Slice || input[1].Len() != 1
				}()
				enc.Encode(ev)
			}
		}
	}
}
