//go:build go1.18

package drv

import (
	"fmt"
	"github.com/tencent/goom/internal/bytecode/memory"
	"os"
	"reflect"
	"runtime"
	"strings"
	"sync"

	mocker "github.com/tencent/goom"
	"github.com/tencent/goom/internal/patch"
	"github.com/tencent/goom/zzverif/corpus/fn"
)

// lifeWorld binds the targets "f","g","h" of spec/Goom.tla to one handle kind:
//
//	func     b.Func(fn.F)
//	method   b.Struct(&fn.S{}).Method("F")
//	uefunc   b.Pkg(fn.Pkg).ExportFunc("f") (+ .As(sig) for stubs)
//	uemethod b.Struct(&fn.S{}).ExportMethod("f") (+ .As(sig) for stubs)
type lifeWorld struct {
	kind  string
	heldE map[string]mocker.ExportedMocker   // last handle a lookup returned, per builder+target
	heldU map[string]mocker.UnExportedMocker // same for unexported kinds (no As)
	via   string                             // "lookup" or "held" for the op being performed
	b     map[string]*mocker.Builder
	used  map[string]bool // placeholder handed to goom in this behaviour
	calls int
	drops bool // a builder was dropped with its mocks installed (Keep.tla): End() unpatches through the patch table
}

func (w *lifeWorld) Name() string { return "life/" + w.kind }

var tnum = map[string]int{"f": 1, "g": 2, "h": 3}

func (w *lifeWorld) builder(b string) *mocker.Builder {
	if w.b[b] == nil {
		w.b[b] = mocker.Create()
	}
	return w.b[b]
}

// lifeWrites: with VERIF_WRITES=1 every memory.WriteTo of the step is recorded (address, length) through the mem.locked hook and
// must lie inside the 13 entry bytes of one of the world's targets or inside one of its placeholders (C14: a patch writes only
// the fixed-length entry jump - also when it is REMOVED, whatever the logging configuration)
var lifeWrites struct {
	sync.Mutex
	w [][2]uintptr
}

func (w *lifeWorld) Begin() {
	theImage()
	baseLogging()
	if os.Getenv("VERIF_WRITES") == "1" {
		memory.VerifHook = func(point string, a, b uintptr) {
			if point == "mem.locked" {
				lifeWrites.Lock()
				lifeWrites.w = append(lifeWrites.w, [2]uintptr{a, b})
				lifeWrites.Unlock()
			}
		}
		lifeWrites.Lock()
		lifeWrites.w = nil
		lifeWrites.Unlock()
	}
	w.b = map[string]*mocker.Builder{}
	w.used = map[string]bool{}
	w.heldE = map[string]mocker.ExportedMocker{}
	w.heldU = map[string]mocker.UnExportedMocker{}
	w.via = "lookup"
	w.drops = false
}

// symbol name of the target's code
func (w *lifeWorld) sym(t string) string {
	switch w.kind {
	case "func":
		return fn.Pkg + "." + strings.ToUpper(t)
	case "literal":
		// (the symbol of a function literal is numbered by the compiler: ask the runtime)
		return runtime.FuncForPC(reflect.ValueOf(map[string]interface{}{"f": fn.LitF, "g": fn.LitG, "h": fn.LitH}[t]).Pointer()).Name()
	case "method", "fmvalue":
		return fn.Pkg + ".(*S)." + strings.ToUpper(t)
	case "uefunc":
		return fn.Pkg + "." + t
	case "generic":
		// the shape body behind the instantiation's wrapper is what goom patches
		return fn.Pkg + ".Gen" + strings.ToUpper(t) + "[go.shape.int]"
	default:
		return fn.Pkg + ".(*S)." + t
	}
}

func (w *lifeWorld) phSym(t string) string {
	T := strings.ToUpper(t)
	switch w.kind {
	case "func", "literal":
		return fn.Pkg + ".Ph" + T
	case "method", "uemethod":
		return fn.Pkg + ".PhM" + T
	default:
		return fn.Pkg + ".PhU" + T
	}
}

func (w *lifeWorld) isMethod() bool { return w.kind == "method" || w.kind == "uemethod" }

// exported handle (Apply / Return / When ...). For unexported kinds As(sig) converts.
func (w *lifeWorld) handle(b, t string) mocker.ExportedMocker {
	if w.kind == "uefunc" {
		// the typed view is derived from the (kept or looked-up) unexported mocker: one underlying object
		return w.ueHandle(b, t).As(func(int) int { return 0 })
	}
	if w.kind == "uemethod" {
		return w.ueHandle(b, t).As(func(*fn.S, int) int { return 0 })
	}
	if w.via == "held" {
		if h, ok := w.heldE[b+"/"+t]; ok {
			return h
		}
	}
	h := w.lookupHandle(b, t)
	w.heldE[b+"/"+t] = h
	return h
}

func (w *lifeWorld) lookupHandle(b, t string) mocker.ExportedMocker {
	bl := w.builder(b)
	switch w.kind {
	case "func":
		return bl.Func(map[string]interface{}{"f": fn.F, "g": fn.G, "h": fn.H}[t])
	case "literal":
		return bl.Func(map[string]interface{}{"f": fn.LitF, "g": fn.LitG, "h": fn.LitH}[t])
	case "generic":
		return bl.Func(map[string]interface{}{"f": fn.GenF[int], "g": fn.GenG[int], "h": fn.GenH[int]}[t])
	case "method":
		return bl.Struct(&fn.S{}).Method(strings.ToUpper(t))
	case "fmvalue":
		// a METHOD VALUE handed to Func (mocker.go has a branch for names ending in -fm: the method is mocked by name); the
		// callbacks are written like the method value's own type, without a receiver
		return bl.Func(map[string]interface{}{"f": fmInst.F, "g": fmInst.G, "h": fmInst.H}[t])
	case "uefunc":
		return bl.Pkg(fn.Pkg).ExportFunc(t).As(func(int) int { return 0 })
	default:
		return bl.Struct(&fn.S{}).ExportMethod(t).As(func(*fn.S, int) int { return 0 })
	}
}

// handle for Apply/Cancel/Origin on unexported kinds (no As)
func (w *lifeWorld) ueHandle(b, t string) mocker.UnExportedMocker {
	if w.via == "held" {
		if h, ok := w.heldU[b+"/"+t]; ok {
			return h
		}
	}
	h := w.ueLookup(b, t)
	w.heldU[b+"/"+t] = h
	return h
}

func (w *lifeWorld) ueLookup(b, t string) mocker.UnExportedMocker {
	bl := w.builder(b)
	if w.kind == "uefunc" {
		return bl.Pkg(fn.Pkg).ExportFunc(t)
	}
	return bl.Struct(&fn.S{}).ExportMethod(t)
}

func (w *lifeWorld) originVar(t string) interface{} {
	switch w.kind {
	case "func", "literal":
		return map[string]interface{}{"f": &fn.OF, "g": &fn.OG, "h": &fn.OH}[t]
	case "method", "uemethod":
		return map[string]interface{}{"f": &fn.OMF, "g": &fn.OMG, "h": &fn.OMH}[t]
	default:
		return map[string]interface{}{"f": &fn.OUF, "g": &fn.OUG, "h": &fn.OUH}[t]
	}
}

func (w *lifeWorld) callOrigin(t string, a int) int {
	switch w.kind {
	case "func", "literal":
		return map[string]func(int) int{"f": fn.OF, "g": fn.OG, "h": fn.OH}[t](a)
	case "method", "uemethod":
		return map[string]func(*fn.S, int) int{"f": fn.OMF, "g": fn.OMG, "h": fn.OMH}[t](&fn.S{Tag: 7}, a)
	default:
		return map[string]func(int) int{"f": fn.OUF, "g": fn.OUG, "h": fn.OUH}[t](a)
	}
}

var fmInst = &fn.S{Tag: 7}

var cbnum = map[string]int{"c1": 1, "c2": 2}

// callbacks: cb c -> 5000+100*c+a ; cbo -> 3000 + origin(a)
func (w *lifeWorld) callback(c string) interface{} {
	n := 5000 + 100*cbnum[c]
	if w.kind == "generic" {
		return func() int { return n }
	}
	if w.isMethod() {
		return func(s *fn.S, a int) int { return n + a }
	}
	return func(a int) int { return n + a }
}

func (w *lifeWorld) callbackO(t string) interface{} {
	if w.isMethod() {
		return func(s *fn.S, a int) int { return 3000 + w.callOrigin(t, a) }
	}
	return func(a int) int { return 3000 + w.callOrigin(t, a) }
}

func ints(v interface{}) []int {
	var out []int
	if l, ok := v.([]interface{}); ok {
		for _, x := range l {
			out = append(out, int(x.(float64)))
		}
	}
	return out
}

func (w *lifeWorld) Do(st Step) string {
	return catch(func() {
		b, t := st.Str("b"), st.Str("t")
		w.via = "lookup"
		if st.Str("via") == "held" {
			w.via = "held"
		}
		switch st.Str("op") {
		case "Apply":
			if w.kind == "uefunc" || w.kind == "uemethod" {
				w.ueHandle(b, t).Apply(w.callback(st.Str("c")))
			} else {
				w.handle(b, t).Apply(w.callback(st.Str("c")))
			}
		case "ApplyO":
			w.used[t] = true
			if w.kind == "uefunc" || w.kind == "uemethod" {
				w.ueHandle(b, t).Origin(w.originVar(t)).Apply(w.callbackO(t))
			} else {
				w.handle(b, t).Origin(w.originVar(t)).Apply(w.callbackO(t))
			}
		case "Return":
			rs := ints(st["rs"])
			wh := w.handle(b, t).Return(9000 + rs[0])
			for _, r := range rs[1:] {
				wh.AndReturn(9000 + r)
			}
		case "Returns":
			rs := ints(st["rs"])
			vals := make([]interface{}, len(rs))
			for i, r := range rs {
				vals[i] = 9000 + r
			}
			w.handle(b, t).Returns(vals...)
		case "When":
			rs := ints(st["rs"])
			var a interface{} = st.Int("a")
			if st.Int("a") < 0 {
				a = anyExpr()
			}
			var wh *mocker.When
			if w.kind == "uemethod" {
				// ExportMethod(..).As(func(*S,int) int): the receiver is an explicit first parameter
				wh = w.handle(b, t).When(anyExpr(), a).Return(9000 + rs[0])
			} else {
				wh = w.handle(b, t).When(a).Return(9000 + rs[0])
			}
			for _, r := range rs[1:] {
				wh.AndReturn(9000 + r)
			}
		case "Cancel":
			if w.kind == "uefunc" || w.kind == "uemethod" {
				w.ueHandle(b, t).Cancel()
			} else {
				w.handle(b, t).Cancel()
			}
		case "Reset":
			w.builder(b).Reset()
		case "Drop":
			// the test drops every reference to the builder and to the handles it got from it
			delete(w.b, b)
			for k := range w.heldE {
				if strings.HasPrefix(k, b+"/") {
					delete(w.heldE, k)
				}
			}
			for k := range w.heldU {
				if strings.HasPrefix(k, b+"/") {
					delete(w.heldU, k)
				}
			}
			w.drops = true
		case "GC":
			churn()
		case "Mistake":
			w.mistake(b, t, st.Str("kind"))
		case "WhenBad":
			// When(a) is fine (and installs the mock on a fresh handle); the Return of a value of another size is rejected
			var a interface{} = st.Int("a")
			if w.kind == "uemethod" {
				w.handle(b, t).When(anyExpr(), a).Return(int8(1))
			} else {
				w.handle(b, t).When(a).Return(int8(1))
			}
		case "OpenDebug":
			mocker.OpenDebug()
		case "CloseDebug":
			mocker.CloseDebug()
		case "OpenTrace":
			mocker.OpenTrace()
		case "CloseTrace":
			mocker.CloseTrace()
		case "Call", "CallPh":
			// performed in Observe (the result is the observable)
		default:
			panic("lifeWorld: unknown op " + st.Str("op"))
		}
	})
}

// mistake issues an ill-formed instruction; it must panic (the runner requires a panic containing "" = any).
func (w *lifeWorld) mistake(b, t, kind string) {
	ue := w.kind == "uefunc" || w.kind == "uemethod"
	switch kind {
	case "arity":
		var cb interface{} = func(a, c int) int { return 0 }
		if w.isMethod() {
			cb = func(s *fn.S, a, c int) int { return 0 }
		}
		if ue {
			// unexported handles apply by name without a signature to compare with: use the typed view
			w.handle(b, t).Apply(cb)
		} else {
			w.handle(b, t).Apply(cb)
		}
	case "size":
		var cb interface{} = func(a int8) int { return 0 }
		if w.isMethod() {
			cb = func(s *fn.S, a int8) int { return 0 }
		}
		w.handle(b, t).Apply(cb)
	case "ret-few":
		w.handle(b, t).Return()
	case "ret-size":
		w.handle(b, t).Return(int8(1))
	default:
		panic("unknown mistake " + kind)
	}
}

func (w *lifeWorld) call(t string, a int) (res int) {
	w.calls++
	switch w.kind {
	case "func":
		return map[string]func(int) int{"f": fn.F, "g": fn.G, "h": fn.H}[t](a)
	case "literal":
		return map[string]func(int) int{"f": fn.LitF, "g": fn.LitG, "h": fn.LitH}[t](a)
	case "generic":
		// (the spec's call argument is always 0 in this family; the int64 instantiations are the bystanders)
		if fn.GenF[int64]() != 1000 || fn.GenG[int64]() != 2000 || fn.GenH[int64]() != 3000 {
			return -1 // an instantiation of a different shape was affected
		}
		return map[string]func() int{"f": fn.GenF[int], "g": fn.GenG[int], "h": fn.GenH[int]}[t]()
	case "method", "fmvalue":
		s := &fn.S{Tag: 7}
		switch t {
		case "f":
			return s.F(a)
		case "g":
			return s.G(a)
		}
		return s.H(a)
	case "uefunc":
		return fn.CallUE(t, a)
	default:
		return (&fn.S{Tag: 7}).CallUEM(t, a)
	}
}

// token of a call result
func token(t string, a, res int) string {
	k := tnum[t]
	switch {
	case res == 1000*k+a:
		return "orig"
	case res == 3000+1000*k+a:
		return "cbo"
	case res == 6000+1000*k+a:
		return "cbo-twice"
	case res >= 5100 && res < 5300 && (res-5000)%100 == a:
		return fmt.Sprintf("cb:c%d", (res-5000)/100)
	case res >= 9000 && res < 9100:
		return fmt.Sprintf("r:%d", res-9000)
	}
	return fmt.Sprintf("?%d", res)
}

func (w *lifeWorld) Observe(st Step) map[string]string {
	im := theImage()
	out := map[string]string{}
	op := st.Str("op")
	if op == "Call" || op == "CallPh" {
		t, a := st.Str("t"), st.Int("a")
		var res int
		p := catch(func() {
			growStack(w.calls)
			if op == "Call" {
				res = w.call(t, a)
			} else {
				res = w.callOrigin(t, a)
			}
		})
		switch {
		case p == "":
			out["res"] = token(t, a, res)
		case strings.Contains(p, "no suitable condition"):
			out["res"] = "panic:nocond"
		default:
			out["res"] = p
		}
	}
	var allowed []rng
	for k, want := range st.Obs() {
		if strings.HasPrefix(k, "ph:") {
			r, ok := im.funcs[w.phSym(k[3:])]
			if !ok {
				panic("no symbol " + w.phSym(k[3:]))
			}
			if im.same(r[0], int(r[1]-r[0])) {
				out[k] = "P"
			} else {
				out[k] = "T"
			}
			if want != "P" {
				allowed = append(allowed, rng{r[0], r[1]})
			}
			continue
		}
		r, ok := im.funcs[w.sym(k)]
		if !ok {
			panic("no symbol " + w.sym(k))
		}
		switch e := im.entryState(r[0]); e {
		case "P", "J":
			out[k] = e
		default:
			// neither the pristine bytes nor a complete entry jump: never acceptable
			out[k] = e
			out["!entry:"+k] = e
		}
		if want != "P" {
			allowed = append(allowed, rng{r[0], r[0] + 13})
		}
	}
	out["!image"] = im.outside(allowed)
	if os.Getenv("VERIF_WRITES") == "1" {
		out["!writes"] = "ok"
		lifeWrites.Lock()
		ws := lifeWrites.w
		lifeWrites.w = nil
		lifeWrites.Unlock()
		for _, wr := range ws {
			ok := false
			for _, t := range []string{"f", "g", "h"} {
				if r, has := im.funcs[w.sym(t)]; has && wr[0] >= r[0] && wr[0]+wr[1] <= r[0]+13 {
					ok = true
				}
				if r, has := im.funcs[w.phSym(t)]; has && wr[0] >= r[0] && wr[0]+wr[1] <= r[1] {
					ok = true
				}
			}
			if !ok {
				out["!writes"] = fmt.Sprintf("a write of %d bytes at %s: not inside the 13 entry bytes of a target nor inside a placeholder", wr[1], im.owner(wr[0]))
				break
			}
		}
	}
	return out
}

func (w *lifeWorld) End() string {
	if os.Getenv("VERIF_WRITES") == "1" {
		memory.VerifHook = nil
	}
	for _, b := range w.b {
		catch(func() { b.Reset() })
	}
	if w.drops {
		patch.UnpatchAll() // mocks of dropped builders can only be removed through the patch table
	}
	im := theImage()
	// everything except placeholder bodies that were handed over must be pristine again
	var allowed []rng
	for _, t := range []string{"f", "g", "h"} {
		r := im.funcs[w.phSym(t)]
		allowed = append(allowed, rng{r[0], r[1]})
	}
	res := ""
	if s := im.outside(allowed); s != "ok" {
		res = "image after final Reset: " + s
	}
	if p := im.perms(); p != "ok" {
		res += " perms: " + p
	}
	// the harness (not goom) puts placeholder bodies back between behaviours, and heals anything
	// else so that one failing behaviour does not poison the next
	for _, d := range im.diff() {
		healText(d.lo, im.pristine(d.lo, int(d.hi-d.lo)))
	}
	fn.RestoreOrigins()
	baseLogging()
	return res
}

//go:noinline
func growStack(n int) int {
	// every 7th call forces fresh stack use so that stack moves happen between mock and call
	if n%7 != 0 {
		return 0
	}
	var buf [16 << 10]byte
	buf[n%len(buf)] = byte(n)
	return int(buf[(n+1)%len(buf)])
}

func init() {
	worlds["life"] = func() []World {
		return []World{&lifeWorld{kind: "func"}, &lifeWorld{kind: "method"}, &lifeWorld{kind: "uefunc"}, &lifeWorld{kind: "uemethod"}}
	}
	worlds["life-func"] = func() []World { return []World{&lifeWorld{kind: "func"}} }
	worlds["life-keep"] = func() []World {
		return []World{&lifeWorld{kind: "func"}, &lifeWorld{kind: "method"}, &lifeWorld{kind: "uefunc"}, &lifeWorld{kind: "uemethod"}, &lifeWorld{kind: "generic"}}
	}
	worlds["life-literal"] = func() []World { return []World{&lifeWorld{kind: "literal"}} }
	worlds["life-fmvalue"] = func() []World { return []World{&lifeWorld{kind: "fmvalue"}} }
	worlds["life-generic"] = func() []World { return []World{&lifeWorld{kind: "generic"}} }
}
