//go:build go1.18

package drv

import (
	"fmt"
	"strings"

	mocker "github.com/tencent/goom"
	"github.com/tencent/goom/zzverif/corpus/fn"
)

// originWorld binds spec/OriginReuse.tla: targets f, g, h -> fn.F, fn.G, fn.H; placeholders p1, p2 -> the origin
// variables fn.OF, fn.OG (bodies fn.PhF, fn.PhG), usable for any of the targets (same signature).
type originWorld struct {
	b    *mocker.Builder
	used map[string]bool
}

func (w *originWorld) Name() string { return "origin-reuse" }

func (w *originWorld) Begin() {
	theImage()
	baseLogging()
	w.b = mocker.Create()
	w.used = map[string]bool{}
}

func (w *originWorld) target(t string) func(int) int {
	return map[string]func(int) int{"f": fn.F, "g": fn.G, "h": fn.H}[t]
}

func (w *originWorld) ovar(p string) *func(int) int {
	if p == "p1" {
		return &fn.OF
	}
	return &fn.OG
}

func (w *originWorld) Do(st Step) string {
	return catch(func() {
		switch st.Str("op") {
		case "ApplyO":
			p := st.Str("p")
			w.used[p] = true
			ov := w.ovar(p)
			w.b.Func(w.target(st.Str("t"))).Origin(ov).Apply(func(a int) int { return 3000 + (*ov)(a) })
		case "Apply":
			w.b.Func(w.target(st.Str("t"))).Apply(func(a int) int { return 5100 + a })
		case "Reset":
			w.b.Reset()
		case "NewBuilder":
			w.b = mocker.Create()
		case "Call", "CallPh":
		default:
			panic("originWorld op " + st.Str("op"))
		}
	})
}

// onBigStack runs f on a fresh goroutine whose stack has already been grown: the calls of this family must not depend on
// how much stack the replayer happens to have left (a stack growth inside a relocated origin is the known finding F5,
// decided by C03's depth sweep, not here)
func onBigStack(f func()) (p string) {
	done := make(chan string)
	go func() {
		done <- inBigFrame(0, f)
	}()
	return <-done
}

// inBigFrame runs f while a 40 KiB frame is live below it: the stack has been grown to hold that frame (64 KiB), the frame
// keeps the collector from shrinking it, and about 20 KiB remain for f - deterministically enough for the small targets
//
//go:noinline
func inBigFrame(n int, f func()) string {
	var buf [40 << 10]byte
	buf[n%len(buf)] = byte(n)
	p := catch(f)
	if buf[(n+7)%len(buf)] != 0 {
		return "corrupted frame"
	}
	return p
}

func whose(r, a int) string {
	for t, k := range tnum {
		if r == 1000*k+a {
			return t
		}
	}
	return fmt.Sprintf("?%d", r)
}

func (w *originWorld) Observe(st Step) map[string]string {
	im := theImage()
	out := map[string]string{}
	const a = 5
	switch st.Str("op") {
	case "Call":
		var r int
		p := onBigStack(func() { r = w.target(st.Str("t"))(a) })
		switch {
		case p != "":
			out["res"] = p
		case r == 5100+a:
			out["res"] = "cb"
		case r >= 6000+1000 && r < 6000+4000:
			out["res"] = "cbo-twice:" + whose(r-6000, a) // the origin re-entered the mock (F5)
		case r >= 3000+1000 && r < 3000+4000:
			out["res"] = "cbo:" + whose(r-3000, a)
		default:
			out["res"] = "orig:" + whose(r, a)
		}
	case "CallPh":
		var r int
		ov := w.ovar(st.Str("p"))
		if p := onBigStack(func() { r = (*ov)(a) }); p != "" {
			out["res"] = p
		} else if r >= 3000+1000 && r < 3000+4000 {
			out["res"] = "reentered:" + whose(r-3000, a) // the placeholder's stack check sent it back into the mock (F5)
		} else {
			out["res"] = "orig:" + whose(r, a)
		}
	}
	var allowed []rng
	for p := range w.used {
		sym := fn.Pkg + ".PhF"
		if p == "p2" {
			sym = fn.Pkg + ".PhG"
		}
		r := im.funcs[sym]
		allowed = append(allowed, rng{r[0], r[1]})
	}
	for t, want := range st.Obs() {
		r := im.funcs[fn.Pkg+"."+strings.ToUpper(t)]
		e := im.entryState(r[0])
		out[t] = e
		if e != "P" && e != "J" {
			out["!entry:"+t] = e
		}
		if want != "P" {
			allowed = append(allowed, rng{r[0], r[0] + 13})
		}
	}
	out["!image"] = im.outside(allowed)
	return out
}

func (w *originWorld) End() string {
	catch(func() { w.b.Reset() })
	im := theImage()
	for _, d := range im.diff() {
		healText(d.lo, im.pristine(d.lo, int(d.hi-d.lo)))
	}
	fn.RestoreOrigins()
	return ""
}

func init() {
	worlds["origin-reuse"] = func() []World { return []World{&originWorld{}} }
}
