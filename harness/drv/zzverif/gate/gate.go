//go:build go1.18

// Package gate replays an interleaving chosen by TLC on real goroutines: exactly one goroutine
// runs at a time; it runs until its next instrumentation point (verifHook) or until its current
// call returns, then hands control back to the scheduler.
package gate

import (
	"fmt"
	"time"
)

type Event struct {
	Proc  int
	Point string // hook point, "ret" (call returned; Val set), "panic"
	A, B  uintptr
	Val   int
	Msg   string
}

type proc struct {
	id     int
	resume chan struct{}
}

type Sched struct {
	procs  map[int]*proc
	cur    *proc
	events chan Event
	Gated  map[string]bool // hook points at which a goroutine stops
}

func New(gated ...string) *Sched {
	s := &Sched{procs: map[int]*proc{}, events: make(chan Event, 16), Gated: map[string]bool{}}
	for _, g := range gated {
		s.Gated[g] = true
	}
	return s
}

// Hook is installed as the package's VerifHook.
func (s *Sched) Hook(point string, a, b uintptr) {
	p := s.cur
	if p == nil || !s.Gated[point] {
		return
	}
	s.events <- Event{Proc: p.id, Point: point, A: a, B: b}
	<-p.resume
}

// Spawn starts goroutine id which performs calls() one after another; before every call it waits
// to be stepped. Each call reports "ret" (or "panic").
func (s *Sched) Spawn(id int, ncalls int, call func() int) {
	p := &proc{id: id, resume: make(chan struct{})}
	s.procs[id] = p
	go func() {
		for i := 0; i < ncalls; i++ {
			<-p.resume
			func() {
				defer func() {
					if e := recover(); e != nil {
						s.events <- Event{Proc: id, Point: "panic", Msg: fmt.Sprint(e)}
					}
				}()
				v := call()
				s.events <- Event{Proc: id, Point: "ret", Val: v}
			}()
		}
	}()
}

// Step lets goroutine id run to its next stop and returns what stopped it.
func (s *Sched) Step(id int) (Event, error) {
	p := s.procs[id]
	if p == nil {
		return Event{}, fmt.Errorf("no proc %d", id)
	}
	s.cur = p
	select {
	case p.resume <- struct{}{}:
	case <-time.After(3 * time.Second):
		return Event{}, fmt.Errorf("proc %d does not take the step (finished or stuck)", id)
	}
	select {
	case ev := <-s.events:
		return ev, nil
	case <-time.After(3 * time.Second):
		return Event{}, fmt.Errorf("proc %d did not reach a stop within 3s (blocked on a lock held by a gated goroutine?)", id)
	}
}
