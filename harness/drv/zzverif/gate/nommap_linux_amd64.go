//go:build go1.18 && linux && amd64

package gate

import (
	"fmt"
	"syscall"
	"unsafe"
)

// DenyExecMmap makes mmap(PROT_READ|PROT_WRITE|PROT_EXEC) fail with ENOMEM for every thread of this process (an unprivileged
// seccomp filter; it cannot be removed again, so the driver runs in a process of its own): the situation in which
// stub.Acquire has to fall back to the built-in reserve.
func DenyExecMmap() error {
	type sockFilter struct {
		code   uint16
		jt, jf uint8
		k      uint32
	}
	type sockFprog struct {
		n      uint16
		filter *sockFilter
	}
	const (
		ldW   = 0x20 // BPF_LD | BPF_W | BPF_ABS
		jeq   = 0x15 // BPF_JMP | BPF_JEQ | BPF_K
		ret   = 0x06 // BPF_RET | BPF_K
		allow = 0x7fff0000
		errno = 0x00050000
		rwx   = syscall.PROT_READ | syscall.PROT_WRITE | syscall.PROT_EXEC
	)
	prog := []sockFilter{
		{ldW, 0, 0, 0},                              // the system call number
		{jeq, 0, 3, uint32(syscall.SYS_MMAP)},       // not mmap: allow
		{ldW, 0, 0, 16 + 2*8},                       // low word of the third argument (prot)
		{jeq, 0, 1, rwx},                            // not read+write+execute: allow
		{ret, 0, 0, errno | uint32(syscall.ENOMEM)}, // refuse
		{ret, 0, 0, allow},
	}
	fp := sockFprog{n: uint16(len(prog)), filter: &prog[0]}
	if _, _, e := syscall.RawSyscall6(syscall.SYS_PRCTL, 38 /* PR_SET_NO_NEW_PRIVS */, 1, 0, 0, 0, 0); e != 0 {
		return fmt.Errorf("prctl(PR_SET_NO_NEW_PRIVS): %v", e)
	}
	if _, _, e := syscall.RawSyscall(317 /* seccomp */, 1 /* SET_MODE_FILTER */, 1 /* TSYNC */, uintptr(unsafe.Pointer(&fp))); e != 0 {
		return fmt.Errorf("seccomp(SET_MODE_FILTER): %v", e)
	}
	return nil
}
