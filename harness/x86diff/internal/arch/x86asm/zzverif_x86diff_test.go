//go:build go1.18

package x86asm

import (
	"bufio"
	"debug/elf"
	"debug/gosym"
	"encoding/json"
	"fmt"
	"os"
	"testing"

	ref "github.com/tencent/goom/zzverif/refx86"
)

// the facts the property names: instruction boundary, opcode, position and width of the PC-relative field
type x86Facts struct {
	Err   bool
	Len   int
	Op    string
	Rel   int
	Off   int
	Panic string
}

func goomX86(b []byte) (f x86Facts) {
	defer func() {
		if e := recover(); e != nil {
			f = x86Facts{Panic: fmt.Sprint(e)}
		}
	}()
	inst, err := Decode(b, 64)
	if err != nil {
		return x86Facts{Err: true}
	}
	f = x86Facts{Len: inst.Len, Op: inst.Op.String(), Rel: inst.PCRel}
	if f.Rel != 0 {
		f.Off = inst.PCRelOff
	}
	return
}

func refX86(b []byte) (f x86Facts) {
	defer func() {
		if e := recover(); e != nil {
			f = x86Facts{Panic: fmt.Sprint(e)}
		}
	}()
	inst, err := ref.Decode(b, 64)
	if err != nil {
		return x86Facts{Err: true}
	}
	f = x86Facts{Len: inst.Len, Op: inst.Op.String(), Rel: inst.PCRel}
	if f.Rel != 0 {
		f.Off = inst.PCRelOff
	}
	return
}

type x86Diff struct {
	Src    string `json:"src"`
	B      []int  `json:"b"`
	N      int    `json:"n"`
	Err    bool   `json:"err"`
	Len    int    `json:"len"`
	Rel    int    `json:"rel"`
	Off    int    `json:"off"`
	Op     string `json:"op"`
	Panic  string `json:"panic"`
	RErr   bool   `json:"rerr"`
	RLen   int    `json:"rlen"`
	RRel   int    `json:"rrel"`
	ROff   int    `json:"roff"`
	ROp    string `json:"rop"`
	RPanic string `json:"rpanic"`
	Agree  bool   `json:"agree"`
}

// TestVerifX86Diff: goom's decoder against the reference decoder (the Go toolchain's own copy of x/arch x86asm, copied into
// the build at check time) on every distinct instruction of the .text of VERIF_BIN (default: this binary). The instruction
// boundaries are the REFERENCE decoder's (linear sweep restarted at every pclntab function entry). Every disagreement is
// recorded (first 400), agreeing instructions every VERIF_KEEP-th, and one summary.
func TestVerifX86Diff(t *testing.T) {
	out := os.Getenv("VERIF_OUT")
	if out == "" {
		t.Skip()
	}
	exe, _ := os.Executable()
	if p := os.Getenv("VERIF_BIN"); p != "" {
		exe = p
	}
	f, err := elf.Open(exe)
	if err != nil {
		t.Fatal(err)
	}
	text := f.Section(".text")
	data, _ := text.Data()
	pcln, _ := f.Section(".gopclntab").Data()
	tab, err := gosym.NewTable(nil, gosym.NewLineTable(pcln, text.Addr))
	if err != nil {
		t.Fatal(err)
	}
	w, _ := os.Create(out)
	defer w.Close()
	bw := bufio.NewWriterSize(w, 1<<20)
	defer bw.Flush()
	enc := json.NewEncoder(bw)
	keep := vEnvInt("VERIF_KEEP", 50)
	seen := map[string]bool{}
	total, uniq, agree, differ, refstop := 0, 0, 0, 0, 0
	rec := func(src []byte, g, r x86Facts) x86Diff {
		k := len(src)
		if k > 15 {
			k = 15
		}
		b := make([]int, k)
		for i := range b {
			b[i] = int(src[i])
		}
		return x86Diff{Src: "diff", B: b, N: len(src), Err: g.Err, Len: g.Len, Rel: g.Rel, Off: g.Off, Op: g.Op, Panic: g.Panic,
			RErr: r.Err, RLen: r.Len, RRel: r.Rel, ROff: r.Off, ROp: r.Op, RPanic: r.Panic, Agree: g == r}
	}
	for _, fn := range tab.Funcs {
		lo, hi := int(fn.Entry-text.Addr), int(fn.End-text.Addr)
		if lo < 0 || hi > len(data) || lo >= hi {
			continue
		}
		for pos := lo; pos < hi; {
			end := pos + 16
			if end > len(data) {
				end = len(data)
			}
			src := data[pos:end]
			r := refX86(src)
			if r.Err || r.Panic != "" || r.Len == 0 {
				refstop++ // data in the text segment, or an instruction the reference does not know: nothing to compare with
				break
			}
			total++
			key := string(src[:r.Len])
			if !seen[key] {
				seen[key] = true
				uniq++
				g := goomX86(src)
				if g == r {
					agree++
					if agree%keep == 0 {
						enc.Encode(rec(src, g, r))
					}
				} else {
					differ++
					if differ <= 400 {
						enc.Encode(rec(src, g, r))
					}
				}
			}
			pos += r.Len
		}
	}
	enc.Encode(map[string]interface{}{"src": "dsum", "total": total, "uniq": uniq, "agree": agree, "differ": differ, "refstop": refstop})
	t.Logf("instructions=%d distinct=%d agree=%d differ=%d", total, uniq, agree, differ)
}
