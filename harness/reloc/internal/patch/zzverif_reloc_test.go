//go:build go1.18

package patch

import (
	"bufio"
	"debug/elf"
	"debug/gosym"
	"encoding/json"
	"fmt"
	"math/rand"
	"os"
	"reflect"
	"strconv"
	"syscall"
	"testing"
	"unsafe"

	"github.com/tencent/goom/internal/bytecode/memory"
)

type relocRec struct {
	Name string `json:"name"`
	D    int    `json:"d"`    // origin - trampoline
	Fn   []int  `json:"fn"`   // first bytes of the original function
	Size int    `json:"size"` // size of the function as handed to the relocation
	N    int    `json:"n"`    // fixedDataSize
	Out  []int  `json:"out"`  // relocated prefix
	Tail []int  `json:"tail"` // appended jump back
	Err  string `json:"err"`
	// tight placeholders (a body of Cap bytes incl. its int3 padding, directly followed by the next function) and far
	// origins (more than 2 GiB away from the placeholder: the jump back is the absolute form)
	Beyond bool  `json:"beyond"` // a byte behind the placeholder (the neighbour function) changed
	Far    bool  `json:"far"`
	OLanes []int `json:"olanes"` // the origin address in 16-bit lanes, low first (TLC integers are 32 bit)
}

func vInts(b []byte) []int {
	r := make([]int, len(b))
	for i := range b {
		r[i] = int(b[i])
	}
	return r
}

func vEnv(k string, d int) int {
	if v, err := strconv.Atoi(os.Getenv(k)); err == nil {
		return v
	}
	return d
}

// arena: scratch executable memory for end-to-end relocation: the function bytes are copied to an "origin" slot
// (followed by int3 padding, as the linker lays functions out) and goom's REAL fixOriginFuncToTrampoline relocates them
// into a "trampoline" slot (filler followed by int3 padding) through memory.WriteTo; the written bytes are read back.
type arena struct {
	alt        *arena // second placeholder area BELOW the origins; records alternate between the two
	flip       bool
	org, trp   []byte
	orgOff     int
	trpOff     int
	orgB, trpB uintptr
}

const trampSlot = 128

func newArena() *arena {
	mm := func(hint uintptr, size int) []byte {
		p, _, e := syscall.Syscall6(syscall.SYS_MMAP, hint, uintptr(size), syscall.PROT_READ|syscall.PROT_WRITE|syscall.PROT_EXEC,
			syscall.MAP_PRIVATE|syscall.MAP_ANON, ^uintptr(0), 0)
		if e != 0 {
			panic(e)
		}
		return unsafe.Slice((*byte)(unsafe.Pointer(p)), size)
	}
	// ONE mapping carved into [placeholders below | origins | placeholders above]: the distances between an origin and
	// its placeholder are bounded by construction (a placeholder is a function of the same text segment: always within
	// rel32 reach). Address hints for separate mappings are only hints - the kernel may place them terabytes apart.
	const lowSz, orgSz, highSz = 64 << 20, 192 << 20, 64 << 20
	all := mm(0x20000000, lowSz+orgSz+highSz)
	a := &arena{}
	low := all[:lowSz]
	a.org = all[lowSz : lowSz+orgSz]
	a.orgB = uintptr(unsafe.Pointer(&a.org[0]))
	a.trp = all[lowSz+orgSz:] // placeholders above the origins
	a.trpB = uintptr(unsafe.Pointer(&a.trp[0]))
	a.alt = &arena{trp: low, trpB: uintptr(unsafe.Pointer(&low[0]))} // and below: displacements of both signs
	return a
}

// relocate runs goom's real relocation end to end and returns one record.
func (a *arena) relocate(name string, code []byte, have int, far bool) relocRec {
	size := len(code)
	if have > size {
		have = size
	}
	// alternate between the placeholder area above and the one below the origins
	a.flip = !a.flip
	if a.flip && a.alt != nil {
		a.trp, a.alt.trp = a.alt.trp, a.trp
		a.trpB, a.alt.trpB = a.alt.trpB, a.trpB
		a.trpOff, a.alt.trpOff = a.alt.trpOff, a.trpOff
		defer func() {
			a.trp, a.alt.trp = a.alt.trp, a.trp
			a.trpB, a.alt.trpB = a.alt.trpB, a.trpB
			a.trpOff, a.alt.trpOff = a.alt.trpOff, a.trpOff
		}()
	}
	// origin slot: code + 32 bytes of int3 padding, 16-aligned
	o := (a.orgOff + 15) &^ 15
	if o+size+64 > len(a.org) || a.trpOff+trampSlot+64 > len(a.trp) {
		panic("arena exhausted")
	}
	// goom leaves the pages it wrote r-x: make this record's slots writable for the harness again
	rw := func(m []byte, off, n int) {
		lo := off &^ 4095
		hi := (off + n + 4095) &^ 4095
		if hi > len(m) {
			hi = len(m)
		}
		syscall.Mprotect(m[lo:hi], syscall.PROT_READ|syscall.PROT_WRITE|syscall.PROT_EXEC)
	}
	rw(a.trp, a.trpOff, trampSlot+64)
	copy(a.org[o:], code)
	for i := 0; i < 32; i++ {
		a.org[o+size+i] = 0xCC
	}
	a.orgOff = o + size + 32
	t := a.trpOff
	for i := 0; i < trampSlot; i++ {
		a.trp[t+i] = 0x90
	}
	for i := 0; i < 32; i++ {
		a.trp[t+trampSlot+i] = 0xCC
	}
	a.trpOff = t + trampSlot + 32
	origin, tramp := a.orgB+uintptr(o), a.trpB+uintptr(t)
	rec := relocRec{Name: name, D: int(origin) - int(tramp), Fn: vInts(code[:have]), Size: size, Out: []int{}, Tail: []int{}, OLanes: []int{0, 0, 0, 0}}
	func() {
		defer func() {
			if e := recover(); e != nil {
				rec.Err = "panic:" + fmt.Sprint(e)
			}
		}()
		if _, err := fixOriginFuncToTrampoline(origin, tramp, 13); err != nil {
			rec.Err = "err:" + err.Error()
		}
	}()
	// what goom wrote (first 96 bytes of the slot; untouched filler is 0x90)
	rec.Out = vInts(a.trp[t : t+96])
	// refusals must leave the placeholder untouched
	if rec.Err != "" {
		for i := 0; i < trampSlot; i++ {
			if a.trp[t+i] != 0x90 {
				rec.Err = "DIRTY-REFUSAL:" + rec.Err
				break
			}
		}
		for i := 0; i < size; i++ {
			if a.org[o+i] != code[i] {
				rec.Err = "DIRTY-ORIGIN:" + rec.Err
				break
			}
		}
	}
	if len(rec.Err) > 90 {
		rec.Err = rec.Err[:90]
	}
	return rec
}

// tight: placeholders as the linker lays small functions out - a body, a few int3 bytes up to the alignment, and the NEXT
// FUNCTION right behind; goom may use body + padding and nothing else. far: the origin is copied into a mapping more
// than 2 GiB away, so the jump back is the 12-byte absolute form (goom's capacity check must account for it).
type tightArena struct {
	near, far []byte
	nearOff   int
	farOff    int
}

var sentinel = []byte{0x49, 0x3b, 0x66, 0x10, 0x76, 0x10, 0x55, 0x48, 0x89, 0xe5, 0x48, 0x83, 0xec, 0x08, 0x90, 0x90,
	0x90, 0x90, 0x48, 0x83, 0xc4, 0x08, 0x5d, 0xc3, 0xeb, 0xe6, 0xcc, 0xcc, 0xcc, 0xcc, 0xcc, 0xcc}

func newTightArena(base uintptr) *tightArena {
	mm := func(addr uintptr, size int, flags uintptr) []byte {
		p, _, e := syscall.Syscall6(syscall.SYS_MMAP, addr, uintptr(size), syscall.PROT_READ|syscall.PROT_WRITE|syscall.PROT_EXEC,
			syscall.MAP_PRIVATE|syscall.MAP_ANON|flags, ^uintptr(0), 0)
		if e != 0 {
			return nil
		}
		return unsafe.Slice((*byte)(unsafe.Pointer(p)), size)
	}
	t := &tightArena{}
	t.near = mm(base, 16<<20, 0)
	const fixedNoReplace = 0x100000
	for k := uintptr(2); k < 40 && t.far == nil; k++ {
		if m := mm((uintptr(unsafe.Pointer(&t.near[0]))+k<<32)&^0xFFFF, 32<<20, fixedNoReplace); m != nil &&
			uintptr(unsafe.Pointer(&m[0]))-uintptr(unsafe.Pointer(&t.near[0])) > 1<<32 {
			t.far = m
		}
	}
	return t
}

func (t *tightArena) relocate(name string, code []byte, have, body, pad int, far bool) (rec relocRec, ok bool) {
	size := len(code)
	if have > size {
		have = size
	}
	org := t.near
	oo := &t.nearOff
	if far {
		if t.far == nil {
			return rec, false
		}
		org, oo = t.far, &t.farOff
	}
	slot := body + pad + len(sentinel) + 16
	pos := (t.nearOff + 15) &^ 15
	if far {
		if pos+slot+128 > len(t.near) || *oo+size+64 > len(org) {
			return rec, false
		}
	} else if pos+slot+size+256 > len(t.near) {
		return rec, false
	}
	lo, hi := pos&^4095, (pos+slot+size+256+4095)&^4095
	if hi > len(t.near) {
		hi = len(t.near)
	}
	syscall.Mprotect(t.near[lo:hi], syscall.PROT_READ|syscall.PROT_WRITE|syscall.PROT_EXEC)
	// placeholder: body of NOPs, int3 padding, then the next function
	for i := 0; i < body; i++ {
		t.near[pos+i] = 0x90
	}
	for i := 0; i < pad; i++ {
		t.near[pos+body+i] = 0xCC
	}
	copy(t.near[pos+body+pad:], sentinel)
	for i := 0; i < 16; i++ {
		t.near[pos+body+pad+len(sentinel)+i] = 0xCC
	}
	tramp := uintptr(unsafe.Pointer(&t.near[pos]))
	// origin copy
	var o int
	if far {
		o = (*oo + 15) &^ 15
		flo, fhi := o&^4095, (o+size+64+4095)&^4095
		if fhi > len(org) {
			fhi = len(org)
		}
		syscall.Mprotect(org[flo:fhi], syscall.PROT_READ|syscall.PROT_WRITE|syscall.PROT_EXEC)
		*oo = o + size + 32
		t.nearOff = pos + slot
	} else {
		o = (pos + slot + 15) &^ 15
		t.nearOff = o + size + 32
	}
	copy(org[o:], code)
	for i := 0; i < 32; i++ {
		org[o+size+i] = 0xCC
	}
	origin := uintptr(unsafe.Pointer(&org[o]))
	rec = relocRec{Name: name, Fn: vInts(code[:have]), Size: size, Out: []int{}, Tail: []int{}, Far: far,
		OLanes: []int{int(origin & 0xFFFF), int(origin >> 16 & 0xFFFF), int(origin >> 32 & 0xFFFF), int(origin >> 48 & 0xFFFF)}}
	if !far {
		rec.D = int(origin) - int(tramp)
	}
	func() {
		defer func() {
			if e := recover(); e != nil {
				rec.Err = "panic:" + fmt.Sprint(e)
			}
		}()
		if _, err := fixOriginFuncToTrampoline(origin, tramp, 13); err != nil {
			rec.Err = "err:" + err.Error()
		}
	}()
	out := make([]byte, 96)
	copy(out, t.near[pos:])
	// the judge looks at the placeholder's own bytes only: what lies behind is reported separately
	for i := body + pad; i < 96; i++ {
		out[i] = 0x90
	}
	rec.Out = vInts(out)
	for i := range sentinel {
		if t.near[pos+body+pad+i] != sentinel[i] {
			rec.Beyond = true
		}
	}
	if rec.Err != "" {
		for i := 0; i < body; i++ {
			if t.near[pos+i] != 0x90 {
				rec.Err = "DIRTY-REFUSAL:" + rec.Err
				break
			}
		}
	}
	if len(rec.Err) > 90 {
		rec.Err = rec.Err[:90]
	}
	return rec, true
}

// TestVerifRelocSweep: every function of VERIF_BIN (default this binary; bytes read from the file,
// so nothing is executed) x placeholder distances.
func TestVerifRelocSweep(t *testing.T) {
	out := os.Getenv("VERIF_OUT")
	if out == "" {
		t.Skip()
	}
	exe, _ := os.Executable()
	self := true
	if p := os.Getenv("VERIF_BIN"); p != "" {
		exe, self = p, false
	}
	f, err := elf.Open(exe)
	if err != nil {
		t.Fatal(err)
	}
	text := f.Section(".text")
	data, _ := text.Data()
	pcln, _ := f.Section(".gopclntab").Data()
	tab, _ := gosym.NewTable(nil, gosym.NewLineTable(pcln, text.Addr))
	_ = self
	_ = reflect.TypeOf
	_ = memory.RawRead
	w, _ := os.Create(out)
	defer w.Close()
	bw := bufio.NewWriterSize(w, 1<<20)
	defer bw.Flush()
	enc := json.NewEncoder(bw)
	rng := rand.New(rand.NewSource(int64(vEnv("VERIF_SEED", 1))))
	sample, maxSize, have := vEnv("VERIF_SAMPLE", 1<<30), vEnv("VERIF_MAXSIZE", 1500), vEnv("VERIF_HAVE", 400)
	dists := []int{1, 2, 3, 4}[:vEnv("VERIF_NDIST", 1)] // repetitions: every run gets its own slots, hence its own distance
	var idx []int
	for i, fn := range tab.Funcs {
		size := int(fn.End - fn.Entry)
		if size >= 14 && size <= maxSize {
			idx = append(idx, i)
		}
	}
	rng.Shuffle(len(idx), func(a, b int) { idx[a], idx[b] = idx[b], idx[a] })
	if len(idx) > sample {
		idx = idx[:sample]
	}
	cnt := 0
	ar := newArena()
	ta := newTightArena(0x60000000)
	shapes := [][2]int{{27, 5}, {29, 3}, {37, 11}, {45, 3}, {61, 3}}
	for _, i := range idx {
		fn := tab.Funcs[i]
		lo, hi := int(fn.Entry-text.Addr), int(fn.End-text.Addr)
		if lo < 0 || hi > len(data) {
			continue
		}
		code := data[lo:hi]
		// goom hands the relocation the extent found by its own scan: code up to the int3 padding
		end := len(code)
		for end > 0 && code[end-1] == 0xCC {
			end--
		}
		if end < 14 {
			continue
		}
		for _, d := range dists {
			_ = d
			enc.Encode(ar.relocate(fn.Name, code[:end], have, false))
			cnt++
		}
		if cnt%3 == 0 {
			sh := shapes[cnt/3%len(shapes)]
			if rec, ok := ta.relocate(fn.Name, code[:end], have, sh[0], sh[1], cnt%2 == 0); ok {
				enc.Encode(rec)
				cnt++
			}
		}
	}
	t.Logf("records=%d", cnt)
}

type absIns struct {
	K string `json:"k"`
	T string `json:"t"`
}
type absStream struct {
	Ins  []absIns `json:"ins"`
	Tail int      `json:"tail"`
}

var insLen = map[string]int{"p1": 1, "p3": 3, "p5": 5, "p6": 6, "p3c": 3, "p6c": 6, "j8w": 2, "j8n": 2, "jmp8": 2, "jcc32": 6, "jmp32": 5, "call32": 5, "rip7": 7, "lea7": 7, "ret": 1}

// synth turns an abstract stream of spec/Gen_Reloc.tla into machine code.
func synth(s absStream) []byte {
	offs := make([]int, len(s.Ins)+1)
	for i, in := range s.Ins {
		offs[i+1] = offs[i] + insLen[in.K]
	}
	size := offs[len(s.Ins)] + s.Tail
	target := func(t string) int {
		switch t {
		case "entry":
			return 0
		case "second":
			return offs[1]
		case "end":
			return size - 1
		}
		return size + 0x1000
	}
	var code []byte
	le32 := func(v int) []byte { return []byte{byte(v), byte(v >> 8), byte(v >> 16), byte(v >> 24)} }
	for i, in := range s.Ins {
		rel := target(in.T) - offs[i+1]
		switch in.K {
		case "p1":
			code = append(code, 0x50)
		case "p3":
			code = append(code, 0x48, 0x89, 0xc0)
		case "p5":
			code = append(code, 0xb8, 0x78, 0x56, 0x34, 0x12)
		case "p6":
			code = append(code, 0x48, 0xa9, 0x78, 0x56, 0x34, 0x12)
		case "p3c": // mov %rax,%rbx: a plain instruction whose LAST byte reads as RET
			code = append(code, 0x48, 0x89, 0xc3)
		case "p6c": // test $imm32,%rax with an immediate whose last byte reads as RET
			code = append(code, 0x48, 0xa9, 0x78, 0x56, 0x34, 0xc3)
		case "j8w":
			code = append(code, 0x74, byte(int8(rel)))
		case "j8n":
			code = append(code, 0x75, byte(int8(rel)))
		case "jmp8":
			code = append(code, 0xeb, byte(int8(rel)))
		case "jcc32":
			code = append(append(code, 0x0f, 0x84), le32(rel)...)
		case "jmp32":
			code = append(append(code, 0xe9), le32(rel)...)
		case "call32":
			code = append(append(code, 0xe8), le32(rel)...)
		case "rip7":
			code = append(append(append(code, 0x83, 0x3d), le32(rel-1)...), 0x7f) // displacement is relative to the END of the instruction
			code[len(code)-5], code[len(code)-4], code[len(code)-3], code[len(code)-2] = le32(rel)[0], le32(rel)[1], le32(rel)[2], le32(rel)[3]
		case "lea7":
			code = append(append(code, 0x48, 0x8d, 0x05), le32(rel)...)
		case "ret":
			code = append(code, 0xc3)
		}
	}
	for len(code) < size-1 {
		code = append(code, 0x31, 0xc0)
	}
	code = code[:size-1]
	return append(code, 0xc3)
}

// TestVerifRelocStreams: abstract streams enumerated by TLC (VERIF_GEN), synthesised and relocated.
func TestVerifRelocStreams(t *testing.T) {
	out, gen := os.Getenv("VERIF_OUT"), os.Getenv("VERIF_GEN")
	if out == "" || gen == "" {
		t.Skip()
	}
	gf, err := os.Open(gen)
	if err != nil {
		t.Fatal(err)
	}
	defer gf.Close()
	w, _ := os.Create(out)
	defer w.Close()
	bw := bufio.NewWriterSize(w, 1<<20)
	defer bw.Flush()
	enc := json.NewEncoder(bw)
	sc := bufio.NewScanner(gf)
	sc.Buffer(make([]byte, 1<<20), 1<<26)
	n := 0
	ar := newArena()
	for sc.Scan() {
		var s absStream
		if json.Unmarshal(sc.Bytes(), &s) != nil {
			continue
		}
		code := synth(s)
		if len(code) < 14 {
			continue
		}
		desc := ""
		for _, in := range s.Ins {
			desc += in.K
			if in.T != "none" {
				desc += ">" + in.T
			}
			desc += " "
		}
		enc.Encode(ar.relocate("stream: "+desc+fmt.Sprintf("+tail%d", s.Tail), code, 400, false))
		n++
	}
	// late clobber: a plain prologue, `pad` one-byte instructions, one LONG instruction (11 or 12 bytes), then a branch back
	// to the second instruction (inside the bytes the entry jump overwrites), then a tail. goom's extent scan and its
	// branch scan must see that branch wherever the long instruction happens to lie: every pad in a window (all
	// alignments relative to any chunk / page size the scanners may use), so the relocation must be refused every time.
	for _, long := range [][]byte{
		{0xc7, 0x84, 0x24, 0x10, 0x01, 0x00, 0x00, 0x78, 0x56, 0x34, 0x12},       // movl $imm32, disp32(%rsp)   11 bytes
		{0x48, 0xc7, 0x84, 0x24, 0x10, 0x01, 0x00, 0x00, 0x78, 0x56, 0x34, 0x12}, // movq $imm32, disp32(%rsp)   12 bytes
	} {
		for pad := 100; pad < vEnv("VERIF_LATEMAX", 1100); pad++ {
			// every alignment around the 128 / 256 / 512 / 1024 / 2048 / 4096 byte marks (chunk sizes and caps a scanner may
			// use), sparse elsewhere
			pos := 15 + pad
			near := false
			for _, m := range []int{128, 256, 512, 1024, 2048, 4096} {
				if pos >= m-16 && pos <= m+2 {
					near = true
				}
			}
			if !near && (pad >= 540 || pad%37 != 0) {
				continue
			}
			code := []byte{0xb8, 0x78, 0x56, 0x34, 0x12, 0xb9, 0x78, 0x56, 0x34, 0x12, 0xba, 0x78, 0x56, 0x34, 0x12} // 3 x mov $imm32,%e?x
			fill := pad
			for fill >= 600 { // long bodies: mostly 8-byte NOPs (fewer instructions for the judge), the remainder one-byte pushes
				code = append(code, 0x0f, 0x1f, 0x84, 0x00, 0x00, 0x00, 0x00, 0x00) // nopl 0x0(%rax,%rax,1)
				fill -= 8
			}
			for i := 0; i < fill; i++ {
				code = append(code, 0x50+byte(i%3)) // push %rax / %rcx / %rdx
			}
			code = append(code, long...)
			at := len(code)
			rel := 5 - (at + 6) // jne rel32 -> offset 5 = the second instruction
			code = append(code, 0x0f, 0x85, byte(rel), byte(rel>>8), byte(rel>>16), byte(rel>>24))
			code = append(code, 0x31, 0xc0, 0x31, 0xc0, 0xc3)
			enc.Encode(ar.relocate(fmt.Sprintf("late clobber: pad %d, long instruction of %d bytes at %d, branch back at %d", pad, len(long), at-len(long), at), code, len(code), false))
			n++
		}
	}
	t.Logf("records=%d", n)
}
