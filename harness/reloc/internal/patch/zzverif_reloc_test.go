//go:build go1.18

package patch

import (
	"bufio"
	"debug/elf"
	"debug/gosym"
	"encoding/json"
	"fmt"
	"math/rand"
	"os"
	"reflect"
	"strconv"
	"testing"

	"github.com/tencent/goom/internal/bytecode/memory"
)

type relocRec struct {
	Name string `json:"name"`
	D    int    `json:"d"`    // origin - trampoline
	Fn   []int  `json:"fn"`   // first bytes of the original function
	Size int    `json:"size"` // size of the function as handed to the relocation
	N    int    `json:"n"`    // fixedDataSize
	Out  []int  `json:"out"`  // relocated prefix
	Tail []int  `json:"tail"` // appended jump back
	Err  string `json:"err"`
}

func vInts(b []byte) []int {
	r := make([]int, len(b))
	for i := range b {
		r[i] = int(b[i])
	}
	return r
}

func vEnv(k string, d int) int {
	if v, err := strconv.Atoi(os.Getenv(k)); err == nil {
		return v
	}
	return d
}

// relocate runs goom's pure relocation on code (which lives at `from`) for a trampoline at from-d.
func relocate(name string, from uintptr, code []byte, d int, have int) relocRec {
	size := len(code)
	if have > size {
		have = size
	}
	rec := relocRec{Name: name, D: d, Fn: vInts(code[:have]), Size: size, Out: []int{}, Tail: []int{}}
	func() {
		defer func() {
			if e := recover(); e != nil {
				rec.Err = "panic:" + fmt.Sprint(e)
			}
		}()
		cp := make([]byte, len(code))
		copy(cp, code)
		tramp := uintptr(int(from) - d)
		fixed, n, err := fixRelativeAddr(from, cp, tramp, size, 13)
		if err != nil {
			rec.Err = "err:" + err.Error()
			return
		}
		rec.N, rec.Out = n, vInts(fixed)
		if len(fixed) < len(code) {
			rec.Tail = vInts(jmpToOriginFunctionValue(tramp+uintptr(len(fixed)), from+uintptr(n)))
		}
	}()
	if len(rec.Err) > 80 {
		rec.Err = rec.Err[:80]
	}
	return rec
}

// TestVerifRelocSweep: every function of VERIF_BIN (default this binary; bytes read from the file,
// so nothing is executed) x placeholder distances.
func TestVerifRelocSweep(t *testing.T) {
	out := os.Getenv("VERIF_OUT")
	if out == "" {
		t.Skip()
	}
	exe, _ := os.Executable()
	self := true
	if p := os.Getenv("VERIF_BIN"); p != "" {
		exe, self = p, false
	}
	f, err := elf.Open(exe)
	if err != nil {
		t.Fatal(err)
	}
	text := f.Section(".text")
	data, _ := text.Data()
	pcln, _ := f.Section(".gopclntab").Data()
	tab, _ := gosym.NewTable(nil, gosym.NewLineTable(pcln, text.Addr))
	_ = self
	_ = reflect.TypeOf
	_ = memory.RawRead
	w, _ := os.Create(out)
	defer w.Close()
	bw := bufio.NewWriterSize(w, 1<<20)
	defer bw.Flush()
	enc := json.NewEncoder(bw)
	rng := rand.New(rand.NewSource(int64(vEnv("VERIF_SEED", 1))))
	sample, maxSize, have := vEnv("VERIF_SAMPLE", 1<<30), vEnv("VERIF_MAXSIZE", 1500), vEnv("VERIF_HAVE", 400)
	dists := []int{0x100000, -0x200000, 0x40, -0x60}[:vEnv("VERIF_NDIST", 2)]
	var idx []int
	for i, fn := range tab.Funcs {
		size := int(fn.End - fn.Entry)
		if size >= 14 && size <= maxSize {
			idx = append(idx, i)
		}
	}
	rng.Shuffle(len(idx), func(a, b int) { idx[a], idx[b] = idx[b], idx[a] })
	if len(idx) > sample {
		idx = idx[:sample]
	}
	cnt := 0
	for _, i := range idx {
		fn := tab.Funcs[i]
		lo, hi := int(fn.Entry-text.Addr), int(fn.End-text.Addr)
		if lo < 0 || hi > len(data) {
			continue
		}
		code := data[lo:hi]
		// goom hands the relocation the extent found by its own scan: code up to the int3 padding
		end := len(code)
		for end > 0 && code[end-1] == 0xCC {
			end--
		}
		if end < 14 {
			continue
		}
		for _, d := range dists {
			enc.Encode(relocate(fn.Name, uintptr(fn.Entry), code[:end], d, have))
			cnt++
		}
	}
	t.Logf("records=%d", cnt)
}
