//go:build go1.18

package iface

import (
	"testing"

	"github.com/tencent/goom/zzverif/jgen"
)

func TestVerifJumpEmit(t *testing.T) {
	w := jgen.Open()
	defer w.Close()
	for _, a := range jgen.Addrs() {
		w.Emit("amd64", "iface", 0x7f0000000000, a, jmpWithRdx(uintptr(a)))
	}
	t.Logf("events=%d", w.N)
}
