//go:build go1.18

package iface

import (
	"testing"

	"github.com/tencent/goom/zzverif/jgen"
)

func TestVerifJumpEmit(t *testing.T) {
	w := jgen.Open()
	defer w.Close()
	var prevA uint64
	var prev []byte
	for _, a := range jgen.Addrs() {
		cur := jmpWithRdx(uintptr(a))
		w.Emit("amd64", "iface", 0x7f0000000000, a, cur)
		if prev != nil {
			w.Emit("amd64", "iface", 0x7f0000000000, prevA, prev) // judged again after the next emission
		}
		prevA, prev = a, cur
	}
	t.Logf("events=%d", w.N)
}
