//go:build go1.18

package patch

import (
	"testing"

	"github.com/tencent/goom/zzverif/jgen"
)

// TestVerifJumpEmit records what the real amd64 emitters of this package produce.
func TestVerifJumpEmit(t *testing.T) {
	w := jgen.Open()
	defer w.Close()
	// every emission is judged twice: at once, and again after the NEXT emission (a patch keeps the returned
	// bytes and writes them later - Guard.Apply / Restore - so they must not change when another jump is emitted)
	var prevA uint64
	var prev []byte
	for _, a := range jgen.Addrs() {
		cur := jmpToFunctionValue(0x401000, uintptr(a))
		w.Emit("amd64", "entry", 0x401000, a, cur)
		if prev != nil {
			w.Emit("amd64", "entry", 0x401000, prevA, prev)
		}
		prevA, prev = a, cur
	}
	var prevP [2]uint64
	prev = nil
	for _, p := range jgen.Pairs() {
		cur := jmpToOriginFunctionValue(uintptr(p[0]), uintptr(p[1]))
		w.Emit("amd64", "origin", p[0], p[1], cur)
		if prev != nil {
			w.Emit("amd64", "origin", prevP[0], prevP[1], prev)
		}
		prevP, prev = p, cur
	}
	t.Logf("events=%d", w.N)
}
