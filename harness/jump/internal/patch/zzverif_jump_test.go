//go:build go1.18

package patch

import (
	"testing"

	"github.com/tencent/goom/zzverif/jgen"
)

// TestVerifJumpEmit records what the real amd64 emitters of this package produce.
func TestVerifJumpEmit(t *testing.T) {
	w := jgen.Open()
	defer w.Close()
	for _, a := range jgen.Addrs() {
		w.Emit("amd64", "entry", 0x401000, a, jmpToFunctionValue(0x401000, uintptr(a)))
	}
	for _, p := range jgen.Pairs() {
		w.Emit("amd64", "origin", p[0], p[1], jmpToOriginFunctionValue(uintptr(p[0]), uintptr(p[1])))
	}
	t.Logf("events=%d", w.N)
}
