//go:build go1.18

// Package a64drv runs goom's arm64 emitters (pure integer code) on amd64: their source files are
// copied at check time from /repo's working tree into zzverif/a64patch and zzverif/a64iface.
package a64drv

import (
	"testing"

	"github.com/tencent/goom/zzverif/a64iface"
	"github.com/tencent/goom/zzverif/a64patch"
	"github.com/tencent/goom/zzverif/jgen"
)

func TestVerifJumpEmit(t *testing.T) {
	w := jgen.Open()
	defer w.Close()
	for _, a := range jgen.Addrs() {
		w.Emit("arm64", "entry", 0x401000, a, a64patch.JmpToFunctionValue(0x401000, uintptr(a)))
		w.Emit("arm64", "iface", 0x401000, a, a64iface.JmpWithRdx(uintptr(a)))
	}
	t.Logf("events=%d", w.N)
}
