//go:build go1.18

// Package jgen generates the address domains of C15 and writes emission events for Trace_Jump.tla.
package jgen

import (
	"bufio"
	"encoding/json"
	"math/rand"
	"os"
	"strconv"
)

type Event struct {
	Arch  string `json:"arch"`
	Kind  string `json:"kind"`
	From  [4]int `json:"from"`
	To    [4]int `json:"to"`
	Bytes []int  `json:"bytes"`
}

func lanes(x uint64) [4]int {
	return [4]int{int(x & 0xFFFF), int(x >> 16 & 0xFFFF), int(x >> 32 & 0xFFFF), int(x >> 48 & 0xFFFF)}
}

type Writer struct {
	f   *os.File
	bw  *bufio.Writer
	enc *json.Encoder
	N   int
}

func Open() *Writer {
	f, err := os.Create(os.Getenv("VERIF_OUT"))
	if err != nil {
		panic(err)
	}
	bw := bufio.NewWriterSize(f, 1<<20)
	return &Writer{f: f, bw: bw, enc: json.NewEncoder(bw)}
}

func (w *Writer) Emit(arch, kind string, from, to uint64, code []byte) {
	b := make([]int, len(code))
	for i := range code {
		b[i] = int(code[i])
	}
	w.enc.Encode(Event{arch, kind, lanes(from), lanes(to), b})
	w.N++
}

func (w *Writer) Close() { w.bw.Flush(); w.f.Close() }

func envInt(k string, d int) int {
	if v, err := strconv.Atoi(os.Getenv(k)); err == nil {
		return v
	}
	return d
}

// Addrs: every value of each 16-bit lane (stride VERIF_STRIDE, 1 = exhaustive) with the other lanes
// at {0, 0x7FFF, 0x8000, 0xFFFF} (VERIF_PATTERNS of them), plus seeded random addresses.
func Addrs() []uint64 {
	stride, npat, nrand := envInt("VERIF_STRIDE", 257), envInt("VERIF_PATTERNS", 4), envInt("VERIF_RANDOM", 2000)
	pats := []uint64{0, 0x7FFF, 0x8000, 0xFFFF}[:npat]
	var out []uint64
	for lane := 0; lane < 4; lane++ {
		for _, p := range pats {
			base := p | p<<16 | p<<32 | p<<48
			base &^= 0xFFFF << (16 * uint(lane))
			for v := 0; v < 65536; v += stride {
				out = append(out, base|uint64(v)<<(16*uint(lane)))
			}
			out = append(out, base|uint64(0xFFFF)<<(16*uint(lane)))
		}
	}
	rng := rand.New(rand.NewSource(int64(envInt("VERIF_SEED", 1))))
	for i := 0; i < nrand; i++ {
		out = append(out, rng.Uint64())
	}
	return out
}

// Pairs: (from, to) with to-from over the +-2 GiB decision boundary, small distances, and random.
func Pairs() [][2]uint64 {
	w, nrand := int64(envInt("VERIF_WINDOW", 64)), envInt("VERIF_RANDOM", 2000)
	var out [][2]uint64
	bases := []uint64{0x400000, 0x7FFFFFF0, 0x80000010, 0x100000000, 0x7F0000001000, 0xFFFF800000000000, 0xFFFFFFFF}
	for _, from := range bases {
		for _, c := range []int64{0, 1 << 31, -(1 << 31), 1<<31 - 5, -(1<<31 - 5), 1 << 32, -(1 << 32)} {
			for d := c - w; d <= c+w; d++ {
				out = append(out, [2]uint64{from, from + uint64(d)})
			}
		}
	}
	rng := rand.New(rand.NewSource(int64(envInt("VERIF_SEED", 1)) + 7))
	for i := 0; i < nrand; i++ {
		from := rng.Uint64() >> uint(rng.Intn(24))
		var d int64
		switch rng.Intn(3) {
		case 0:
			d = rng.Int63n(1<<33) - 1<<32
		case 1:
			d = rng.Int63n(1<<20) - 1<<19
		default:
			d = int64(rng.Uint64())
		}
		out = append(out, [2]uint64{from, from + uint64(d)})
	}
	return out
}
