//go:build go1.18 && verif

package stub

import (
	"bufio"
	"encoding/json"
	"fmt"
	"math/rand"
	"os"
	"runtime"
	"sort"
	"strconv"
	"strings"
	"sync"
	"syscall"
	"testing"
	"unsafe"

	"github.com/tencent/goom/zzverif/gate"
)

const unit = 48 // bytes per abstract size unit (interfaceJumpDataLen)

type saStep struct {
	P   int    `json:"p"`
	Act string `json:"act"`
	Len int    `json:"len"`
	Lo  int    `json:"lo"`
	Err bool   `json:"err"`
}

func vEnvInt(k string, d int) int {
	if v, err := strconv.Atoi(os.Getenv(k)); err == nil {
		return v
	}
	return d
}

// TestVerifStubSchedules replays TLC's interleavings of spec/StubAlloc.tla (fallback path) on the
// real acquireFromHolder with a reserve of R units.
func TestVerifStubSchedules(t *testing.T) {
	in, out := os.Getenv("VERIF_IN"), os.Getenv("VERIF_OUT")
	if in == "" {
		t.Skip()
	}
	R, K := vEnvInt("VERIF_R", 6), vEnvInt("VERIF_K", 2)
	f, err := os.Open(in)
	if err != nil {
		t.Fatal(err)
	}
	defer f.Close()
	of, _ := os.Create(out)
	defer of.Close()
	enc := json.NewEncoder(of)
	sc := bufio.NewScanner(f)
	sc.Buffer(make([]byte, 1<<20), 1<<26)
	saveOff, saveMax := placeHolderIns.off, placeHolderIns.max
	defer func() { placeHolderIns.off, placeHolderIns.max = saveOff, saveMax }()
	if placeHolderIns.min+uintptr(R*unit) > saveMax {
		t.Fatalf("reserve too small: %d", saveMax-placeHolderIns.min)
	}
	ns, nmm := 0, 0
	for sc.Scan() {
		var steps []saStep
		if err := json.Unmarshal(sc.Bytes(), &steps); err != nil {
			t.Fatal(err)
		}
		placeHolderIns.off = placeHolderIns.min
		placeHolderIns.max = placeHolderIns.min + uintptr(R*unit)
		if mm := replayStub(steps, K); mm != "" {
			nmm++
			if nmm <= 50 {
				enc.Encode(map[string]interface{}{"sched": ns, "mismatch": mm})
			}
		}
		ns++
	}
	enc.Encode(map[string]interface{}{"summary": true, "schedules": ns, "mismatches": nmm})
}

func replayStub(steps []saStep, K int) string {
	s := gate.New("holder.loaded")
	VerifHook = s.Hook
	defer func() { VerifHook = nil }()
	// per process the sizes it requests, in order
	lens := map[int][]int{}
	for _, st := range steps {
		if st.Act == "Load" {
			lens[st.P] = append(lens[st.P], st.Len)
		}
	}
	idx := map[int]*int{}
	for p, ls := range lens {
		p, ls := p, ls
		i := new(int)
		idx[p] = i
		s.Spawn(p, len(ls), func() int {
			l := ls[*i]
			*i++
			addr, sp, err := acquireFromHolder(l * unit)
			if err != nil {
				return -1
			}
			if sp == nil || len(*sp) < l*unit {
				return -2
			}
			return int(addr - placeHolderIns.min)
		})
	}
	for i, st := range steps {
		ev, err := s.Step(st.P)
		if err != nil {
			panic(fmt.Sprintf("gate: %v (schedule step %d)", err, i))
		}
		switch st.Act {
		case "Load":
			if ev.Point != "holder.loaded" {
				return fmt.Sprintf("step %d Load(p%d): expected to stop after the atomic load, got %s val=%d %s", i, st.P, ev.Point, ev.Val, ev.Msg)
			}
		case "Finish":
			if ev.Point != "ret" {
				return fmt.Sprintf("step %d Finish(p%d): expected the request to return, got %s %s", i, st.P, ev.Point, ev.Msg)
			}
			switch {
			case st.Err && ev.Val != -1:
				return fmt.Sprintf("step %d Finish(p%d,len %d): spec says exhaustion error, real granted offset %d", i, st.P, st.Len, ev.Val)
			case !st.Err && ev.Val == -1:
				return fmt.Sprintf("step %d Finish(p%d,len %d): spec grants [%d,%d), real returned an error", i, st.P, st.Len, st.Lo, st.Lo+st.Len)
			case !st.Err && ev.Val == -2:
				return fmt.Sprintf("step %d Finish(p%d,len %d): region shorter than requested", i, st.P, st.Len)
			case !st.Err && ev.Val != st.Lo*unit:
				return fmt.Sprintf("step %d Finish(p%d,len %d): spec grants units [%d,%d), real region starts at byte offset %d (unit %d)", i, st.P, st.Len, st.Lo, st.Lo+st.Len, ev.Val, unit)
			}
		}
	}
	return ""
}

type region struct {
	P    int    `json:"p"`
	Lo   uint64 `json:"lo"`
	Hi   uint64 `json:"hi"`
	Len  int    `json:"len"`
	Src  string `json:"src"`
	Err  bool   `json:"err"`
	X    string `json:"x"` // execution / permission probe
	want int32  // what the stub written into the region answers (checked again at the very end)
}

func callCode(addr uintptr) int {
	p := addr
	pp := &p
	fn := *(*func() int)(unsafe.Pointer(&pp))
	return fn()
}

func retStub(v int32) []byte {
	return []byte{0xB8, byte(v), byte(v >> 8), byte(v >> 16), byte(v >> 24), 0xC3} // mov eax,v ; ret
}

func mapsPerm(addr uintptr) string {
	f, err := os.Open("/proc/self/maps")
	if err != nil {
		return "?"
	}
	defer f.Close()
	sc := bufio.NewScanner(f)
	for sc.Scan() {
		var lo, hi uintptr
		var perm string
		if _, err := fmt.Sscanf(sc.Text(), "%x-%x %s", &lo, &hi, &perm); err == nil && addr >= lo && addr < hi {
			return perm
		}
	}
	return "unmapped"
}

// TestVerifStubFree: free-running requesters (goroutines) through the public Acquire (mmap path)
// and through acquireFromHolder (fallback) up to exhaustion; every region is written through
// stub.Write, executed, and recorded for validation by spec/Trace_Stub.tla.
func TestVerifStubFree(t *testing.T) {
	out := os.Getenv("VERIF_OUT")
	if out == "" {
		t.Skip()
	}
	rng := rand.New(rand.NewSource(int64(vEnvInt("VERIF_SEED", 1))))
	G, K := vEnvInt("VERIF_G", 4), vEnvInt("VERIF_K", 8)
	// VERIF_NOMMAP=1: executable mappings are refused for this whole process: the public Acquire must take the fallback path
	// VERIF_NOMMAP=later: the first requests are served while executable mappings still work, THEN they are refused (an allocator
	// that keeps state between requests must survive the failure of its refill)
	mode := os.Getenv("VERIF_NOMMAP")
	nommap := mode == "1" || mode == "later"
	deny := func() {
		if err := denyExecMmap(); err != nil {
			t.Skip("cannot refuse executable mappings here: " + err.Error())
		}
		// (asked of the kernel directly: the allocator under test may well serve a request without a new mapping)
		if m, err := syscall.Mmap(-1, 0, 4096, syscall.PROT_READ|syscall.PROT_WRITE|syscall.PROT_EXEC, syscall.MAP_PRIVATE|syscall.MAP_ANON); err == nil {
			syscall.Munmap(m)
			t.Skip("the filter did not take effect")
		}
	}
	if mode == "1" {
		deny()
	}
	of, _ := os.Create(out)
	defer of.Close()
	bw := bufio.NewWriter(of)
	defer bw.Flush()
	enc := json.NewEncoder(bw)
	var mu sync.Mutex
	var regs []region
	probe := func(sp *Space, want int32) string {
		// the WHOLE region is written (a region may straddle a page boundary of the reserve): NOPs up to the last six bytes,
		// which hold the stub proper, so that executing the region from its start runs through all of it
		code := retStub(want)
		if n := len(*sp.Space); n > len(code) {
			pad := make([]byte, n-len(code))
			for i := range pad {
				pad[i] = 0x90
			}
			code = append(pad, code...)
		}
		werr := func() (e string) {
			defer func() {
				if r := recover(); r != nil {
					e = fmt.Sprint("write-panic:", r)
				}
			}()
			if err := Write(sp, code); err != nil {
				return "write-error:" + err.Error()
			}
			return ""
		}()
		if werr != "" {
			return werr
		}
		if got := callCode(sp.Addr); got != int(want) {
			return fmt.Sprintf("exec-returned-%d-want-%d", got, want)
		}
		perm := mapsPerm(sp.Addr)
		if !strings.Contains(perm, "x") {
			return "not-executable:" + perm
		}
		return "ok"
	}
	// phase 0 (mode later): 100 sequential requests of stub size while executable mappings work, then they are refused
	if mode == "later" {
		for j := 0; j < 100; j++ {
			sp, err := Acquire(48)
			r := region{P: 9, Len: 48, Src: "acquire"}
			if err != nil {
				r.Err = true
			} else {
				r.Lo, r.Hi = uint64(sp.Addr), uint64(sp.Addr)+uint64(len(*sp.Space))
				if sp.typ == TypeHolder {
					r.Src = "acquire-holder"
				}
				r.want = int32(90000 + j)
				r.X = probe(sp, r.want)
			}
			regs = append(regs, r)
		}
		deny()
	}
	// phase 1: public Acquire, concurrent
	var wg sync.WaitGroup
	sizes := make([][]int, G)
	for i := range sizes {
		for j := 0; j < K; j++ {
			if nommap {
				sizes[i] = append(sizes[i], []int{6, 12, 48, 100, 48, 300}[rng.Intn(6)]) // (stay below the reserve for a while)
			} else {
				sizes[i] = append(sizes[i], []int{6, 12, 48, 100, 4096, 5000}[rng.Intn(6)])
			}
		}
	}
	for i := 0; i < G; i++ {
		wg.Add(1)
		go func(i int) {
			defer wg.Done()
			for j, l := range sizes[i] {
				sp, err := Acquire(l)
				r := region{P: i, Len: l, Src: "acquire"}
				if err != nil {
					r.Err = true
				} else {
					r.Lo, r.Hi = uint64(sp.Addr), uint64(sp.Addr)+uint64(len(*sp.Space))
					if sp.typ == TypeHolder {
						r.Src = "acquire-holder"
					}
					mu.Lock() // executing a freshly written stub: serialise the probes, not the requests
					r.want = int32(1000*i + j)
					r.X = probe(sp, r.want)
					mu.Unlock()
				}
				mu.Lock()
				regs = append(regs, r)
				mu.Unlock()
			}
		}(i)
	}
	wg.Wait()
	// burst: eight goroutines request stub-sized regions as fast as they can from a common start (no probe in between); every region
	// is filled afterwards with a stub of its own and all of them are executed at the end. Overlaps are looked for here (sorted,
	// adjacent) and reported as one record: the regions are too many for the pairwise invariant of the trace spec.
	burstX := "ok"
	if mode == "" {
		nb := vEnvInt("VERIF_BURST", 300)
		type br struct {
			lo, hi uintptr
			sp     *Space
		}
		got := make([][]br, 8)
		start := make(chan struct{})
		var bwg sync.WaitGroup
		for i := 0; i < 8; i++ {
			bwg.Add(1)
			go func(i int) {
				defer bwg.Done()
				<-start
				for j := 0; j < nb; j++ {
					if sp, err := Acquire(48); err == nil {
						got[i] = append(got[i], br{sp.Addr, sp.Addr + uintptr(len(*sp.Space)), sp})
					}
				}
			}(i)
		}
		close(start)
		bwg.Wait()
		var all []br
		for _, g := range got {
			all = append(all, g...)
		}
		for k, r := range all {
			if err := Write(r.sp, retStub(int32(500000+k))); err != nil {
				burstX = "burst-write-error:" + err.Error()
			}
		}
		for k, r := range all {
			if v := callCode(r.lo); v != 500000+k && burstX == "ok" {
				burstX = fmt.Sprintf("burst-region-%d-of-%d-answers-%d:handed-out-twice", k, len(all), v)
			}
		}
		sort.Slice(all, func(a, b int) bool { return all[a].lo < all[b].lo })
		for k := 1; k < len(all); k++ {
			if all[k].lo < all[k-1].hi && burstX == "ok" {
				burstX = fmt.Sprintf("burst-regions-overlap:%#x-%#x-and-%#x-%#x", all[k-1].lo, all[k-1].hi, all[k].lo, all[k].hi)
			}
		}
	}
	// phase 2: fallback path, concurrent, until the (shrunk) reserve is exhausted
	saveOff, saveMax := placeHolderIns.off, placeHolderIns.max
	R := vEnvInt("VERIF_RBYTES", 48*40)
	placeHolderIns.max = placeHolderIns.off + uintptr(R)
	if placeHolderIns.max > saveMax {
		placeHolderIns.max = saveMax // (phase 1 may have used most of the reserve already: never pretend it is larger than it is)
	}
	resLo, resHi := uint64(placeHolderIns.off), uint64(placeHolderIns.max)
	if nommap {
		resLo = uint64(placeHolderIns.min) // phase 1 was served from the reserve too
	}
	for i := 0; i < G; i++ {
		wg.Add(1)
		go func(i int) {
			defer wg.Done()
			for j := 0; j < K+8; j++ {
				l := []int{6, 12, 48, 100}[(i+j)%4]
				runtime.Gosched()
				addr, spb, err := acquireFromHolder(l)
				r := region{P: i, Len: l, Src: "holder"}
				if err != nil {
					r.Err = true
				} else {
					r.Lo, r.Hi = uint64(addr), uint64(addr)+uint64(len(*spb))
				}
				mu.Lock()
				regs = append(regs, r)
				mu.Unlock()
			}
		}(i)
	}
	wg.Wait()
	// probe the holder regions sequentially (writes go through memory.WriteTo)
	for k := range regs {
		r := &regs[k]
		if r.Src == "holder" && !r.Err {
			b := *(*[]byte)(unsafe.Pointer(&struct {
				p    uintptr
				l, c int
			}{uintptr(r.Lo), r.Len, r.Len}))
			sp := &Space{Addr: uintptr(r.Lo), Space: &b, typ: TypeHolder}
			r.X = probe(sp, int32(7000+k))
		}
	}
	placeHolderIns.off, placeHolderIns.max = saveOff, saveMax
	// at the very end every region handed out by the public Acquire must still answer what was written into it (a region handed
	// out twice has been overwritten by then)
	for k := range regs {
		r := &regs[k]
		if !r.Err && r.X == "ok" && r.Src != "holder" {
			if got := callCode(uintptr(r.Lo)); got != int(r.want) {
				r.X = fmt.Sprintf("overwritten-later:answers-%d-want-%d", got, r.want)
			}
		}
	}
	sort.SliceStable(regs, func(a, b int) bool { return regs[a].Lo < regs[b].Lo })
	// TLC integers are 32 bit: replace addresses by their rank among all endpoints (order preserving,
	// so disjointness and containment are unchanged); sizes travel separately in bytes.
	pts := map[uint64]bool{resLo: true, resHi: true}
	for _, r := range regs {
		if !r.Err {
			pts[r.Lo], pts[r.Hi] = true, true
		}
	}
	var sorted []uint64
	for p := range pts {
		sorted = append(sorted, p)
	}
	sort.Slice(sorted, func(a, b int) bool { return sorted[a] < sorted[b] })
	rank := map[uint64]int{}
	for i, p := range sorted {
		rank[p] = i
	}
	enc.Encode(map[string]interface{}{"ev": "reserve", "lo": rank[resLo], "hi": rank[resHi], "p": 0, "len": 0, "size": 0, "src": "", "err": false, "x": ""})
	// the unshrunk reserve [min, max) against the run-time symbol table
	bx := "ok"
	f0, f1 := runtime.FuncForPC(placeHolderIns.min), runtime.FuncForPC(saveMax-1)
	switch {
	case f0 == nil || f1 == nil:
		bx = "reserve-outside-any-function"
	case !strings.HasSuffix(f0.Name(), "stub.Placeholder"):
		bx = "reserve-starts-in-" + f0.Name()
	case f1.Name() != f0.Name():
		bx = fmt.Sprintf("reserve-of-%d-bytes-reaches-into-%s", saveMax-placeHolderIns.min, f1.Name())
	}
	enc.Encode(map[string]interface{}{"ev": "bounds", "lo": 0, "hi": 0, "p": 0, "len": 0, "size": 0, "src": "", "err": false, "x": bx})
	enc.Encode(map[string]interface{}{"ev": "bounds", "lo": 0, "hi": 0, "p": 0, "len": 0, "size": 0, "src": "", "err": false, "x": burstX})
	for _, r := range regs {
		lo, hi := 0, 0
		if !r.Err {
			lo, hi = rank[r.Lo], rank[r.Hi]
		}
		enc.Encode(map[string]interface{}{"ev": "region", "p": r.P, "lo": lo, "hi": hi, "len": r.Len, "size": int(r.Hi - r.Lo), "src": r.Src, "err": r.Err, "x": r.X})
	}
}
