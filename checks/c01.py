"""C01 — a mocked function runs the replacement with exact arguments and results.
 (1) ABI.tla: TLC enumerates signatures over a type alphabet, checks that the register clobbered by the entry jump
     (JumpISA: RDX) is never an argument/result slot, and its distinct layout classes GENERATE the signature zoo;
 (2) the zoo is mocked for real (Apply with an argument-checking callback, Return stub) and called through five
     call forms right after apply, after forced collections and after reset; records judged by TLC (Trace_Dispatch);
 (3) lifecycle histories (Goom.tla) with calls at TLC-chosen points through four handle kinds."""
import json, os, random
from lib import vlib, zoogen
from checks import life

EXTRA = [  # long signatures that spill the register files
    {"params": ["int"] * 12, "variadic": False, "results": ["int"]},
    {"params": ["float64"] * 17, "variadic": False, "results": ["float64", "float64"]},
    {"params": ["int"] * 8 + ["string", "float64", "slice"], "variadic": True, "results": ["string", "int"]},
    {"params": ["struct5", "struct5", "int", "struct2"], "variadic": False, "results": ["struct5", "struct5"]},
    {"params": ["iface", "func", "ptr", "bool", "int8", "float32", "array1", "array2"], "variadic": False, "results": ["iface", "ptr"]},
    {"params": [], "variadic": True, "results": []},
    {"params": ["string"] * 5, "variadic": False, "results": ["slice", "string", "string", "string"]},
]


def layout_key(s):
    L = s["layout"]

    def side(v):
        return (tuple(sorted({r for x in v for r in x["ints"]})), sum(x["floats"] for x in v), any(x["where"] == "stack" for x in v))
    return (side(L["p"]), side(L["r"]), s["variadic"])


def witnesses(ctx, nquick, nthorough):
    q = ctx.quick()
    consts = {"MaxGroups": 2, "Rep": 5}
    if q:
        consts["ParamTypes"] = '{"int", "float64", "string", "struct5", "array2", "iface"}'
        consts["ResultTypes"] = '{"int", "float64", "struct5"}'
    r = ctx.tlc("MC_ABI", "MC_ABI.cfg", workers=1, timeout=1500, constants=consts, tag="signatures over the type alphabet: NoClobber + layouts")
    sigs = [x for x in ctx.behaviours(r) if isinstance(x, dict)]
    classes = {}
    for s in sigs:
        classes.setdefault(layout_key(s), s)
    reps = list(classes.values())
    random.Random(ctx.seed).shuffle(reps)
    chosen = reps[:nquick if q else nthorough] + EXTRA
    ctx.note("ABI: %d signatures enumerated, NoClobber holds, %d distinct register/stack usage classes, %d witnesses generated" % (len(sigs), len(classes), len(chosen)))
    return chosen


def zoo_run(ctx, chosen, configs):
    """configs: list of (env, tag). Builds the generated zoo and judges every record with Trace_Dispatch."""
    # plus leaves whose body is shorter than the entry jump (constant returners, trivial getters)
    chosen = list(chosen) + [{"params": [], "variadic": False, "results": ["int"], "tiny": True},
                             {"params": ["int"], "variadic": False, "results": ["int"], "tiny": True},
                             {"params": ["ptr"], "variadic": False, "results": ["bool"], "tiny": True},
                             {"params": [], "variadic": False, "results": ["string"], "tiny": True}]
    files = zoogen.generate(chosen)
    ov = ctx.extra_overlay(ctx.overlay(["zoo"]), files)
    binary = ctx.build_test("zzverif/zoodrv", ["zoo"], name="zoodrv", overlay=ov)
    for env, tag in configs:
        out = ctx.path("zoo.ndjson")
        if os.path.exists(out):
            os.remove(out)
        rc, o = ctx.run_bin(binary, "^TestVerifZoo$", env=dict(env, VERIF_OUT=out), timeout=1500)
        lines = open(out).read().splitlines() if os.path.exists(out) else []
        def _j(x):
            try:
                return json.loads(x)
            except ValueError:
                return None
        lines = [x for x in lines if _j(x) is not None]
        if rc != 0:
            last = json.loads(lines[-1]) if lines else {}
            ctx.violation("calling a mocked function crashed the process (%s) after signature %s: %s" % (tag, last.get("desc"), o[-700:]),
                          {"family": "zoo", "kind": "crash", "after": last, "tail": o[-2000:], "logging": tag})
            continue
        recs = []
        for ln in lines:
            e = json.loads(ln)
            s = chosen[e["sig"]]
            e.update(params=s["params"], variadic=s["variadic"], results=s["results"])
            recs.append(e)
        for i in range(0, len(recs), 50000):
            part = recs[i:i + 50000]
            vlib.write_ndjson(os.path.join(ctx.specdir(), "trace.ndjson"), part)
            t = ctx.tlc("Trace_Dispatch", "Trace_Dispatch.cfg", workers=1, timeout=1500, tag="judge %d zoo records (%s)" % (len(part), tag), jvm="-Xss64m")
            summ = [x for x in ctx.behaviours(t) if isinstance(x, dict) and x.get("summary")]
            if not summ:
                raise vlib.Broken("no summary from Trace_Dispatch: " + t["out"][-800:])
            for what, idx in summ[0]["bad"]:
                e = part[idx - 1]
                ctx.violation("signature %s, %s, %s, call form %s (%s): %s" % (e["desc"], e["mode"], e["moment"], e["form"], tag, e["detail"]),
                              {"family": "zoo", "kind": what, "desc": e["desc"], "mode": e["mode"], "moment": e["moment"], "form": e["form"], "detail": e["detail"], "logging": tag})
            ctx.cov["distinct_nontrivial"] += summ[0]["nok"]
        ctx.cov["traces_validated_against_impl"] += len(recs)
        ctx.count(len(recs))
        ctx.sample(recs[len(recs) // 2])
        ctx.note("%s: %d signatures x 2 replacement kinds x 2 moments x 5 call forms + reset: %d records" % (tag, len(chosen), len(recs)))


def run(ctx):
    q = ctx.quick()
    chosen = witnesses(ctx, 60, 700)
    zoo_run(ctx, chosen, [({"GODEBUG": "clobberfree=1"}, "logging off"),
                          ({"GODEBUG": "clobberfree=1", "VERIF_LOG": "debug", "VERIF_QUIET": "1"}, "debug logging")])
    # "from any goroutine": eight goroutines call one mocked function at the same time, each with its own argument (Apply callback,
    # conditional stub, variadic target), with logging off and under debug logging; records in the zoo's format, judged by Trace_Dispatch
    from lib.replay import drv_binary
    pbin = drv_binary(ctx)
    for env, tag in (({}, "logging off"), ({"VERIF_LOG": "debug", "VERIF_QUIET": "1"}, "debug logging"), ({"VERIF_LOG": "trace", "VERIF_QUIET": "1"}, "trace logging")):
        pout = ctx.path("parallel.ndjson")
        if os.path.exists(pout):
            os.remove(pout)
        rc, o = ctx.run_bin(pbin, "^TestVerifParallel$", env=dict(env, VERIF_OUT=pout), timeout=600)
        recs = vlib.read_ndjson(pout) if os.path.exists(pout) else []
        if rc != 0 or not recs:
            ctx.violation("parallel callers of a mocked function crashed the process (%s): %s" % (tag, o[-700:]), {"family": "zoo", "kind": "crash", "logging": tag, "tail": o[-2000:]})
            continue
        vlib.write_ndjson(os.path.join(ctx.specdir(), "trace.ndjson"), recs)
        t = ctx.tlc("Trace_Dispatch", "Trace_Dispatch.cfg", workers=1, timeout=600, tag="judge %d parallel-caller records (%s)" % (len(recs), tag))
        summ = [x for x in ctx.behaviours(t) if isinstance(x, dict) and x.get("summary")]
        if not summ:
            raise vlib.Broken("no summary from Trace_Dispatch: " + t["out"][-800:])
        for what, idx in summ[0]["bad"]:
            e = recs[idx - 1]
            # a wrong result among thousands of parallel calls is a verdict only if it comes back: the same form is run three more
            # times; it is reported when at least two of those runs show it again (an incident seen once is recorded, not believed)
            again = 0
            for _ in range(3):
                if os.path.exists(pout):
                    os.remove(pout)
                rc2, o2 = ctx.run_bin(pbin, "^TestVerifParallel$", env=dict(env, VERIF_OUT=pout), timeout=600)
                r2 = vlib.read_ndjson(pout) if os.path.exists(pout) else []
                if rc2 != 0 or any((not x["ok"]) and x["desc"] == e["desc"] and x["mode"] == e["mode"] for x in r2):
                    again += 1
            if again >= 2:
                ctx.violation("signature %s, %s, %s (%s): %s (again in %d of 3 further runs)" % (e["desc"], e["mode"], e["form"], tag, e["detail"], again),
                              {"family": "zoo", "kind": what, "desc": e["desc"], "mode": e["mode"], "moment": e["moment"], "form": e["form"], "detail": e["detail"], "logging": tag})
            else:
                ctx.cov["unreproduced_incidents"] = ctx.cov.get("unreproduced_incidents", 0) + 1
                ctx.note("parallel callers, %s, %s (%s): %s - seen once, again in %d of 3 further runs: recorded, not reported" % (e["desc"], e["mode"], tag, e["detail"], again))
        ctx.cov["traces_validated_against_impl"] += len(recs)
        ctx.count(len(recs))
    # lifecycle: calls at TLC-chosen points of random histories (incl. Origin) through 4 handle kinds
    base = {"B": '{"b1"}', "T": '{"f", "g"}', "CB": '{"c1", "c2"}', "RS": "<- RS_12", "A": "{0, 1}", "Ops": "<- AllOps"}
    behs = life.sim(ctx, base, 150 if q else 3000, 10, "random lifecycles with calls")
    life.replay(ctx, "life", behs, env={"GODEBUG": "clobberfree=1"})
    # a method VALUE handed to Func (x.M): goom mocks the method by name (mocker.go, names ending in -fm)
    fmv = {"B": '{"b1"}', "T": '{"f", "g"}', "CB": '{"c1"}', "RS": "<- RS_12", "A": "{1}", "Ops": "<- GenericOps"}
    fb = life.gen(ctx, fmv, 3 if q else 4, "all histories over method values handed to Func")
    from lib.replay import replay_family
    replay_family(ctx, "life-fmvalue", fb, env={"GODEBUG": "clobberfree=1"}, classify=life.classify_fm)
    # what keeps the replacement alive (Keep.tla): builders dropped and collections at TLC-chosen points, 5 handle kinds
    ctx.tlc("Keep", "MC_Keep.cfg", workers=8, timeout=900, constants={"MaxOps": 6 if q else 7}, tag="reachability of replacements: builders dropped, collections")
    kb = ctx.behaviours(ctx.tlc("Keep", "Gen_Keep.cfg", workers=1, timeout=900, constants={"MaxOps": 4 if q else 5}, tag="all histories of Mock/Reset/Drop/GC/Call"))
    kb = [b for b in kb if any(s["op"] == "Drop" for s in b) and any(s["op"] == "GC" for s in b)]
    kb += ctx.behaviours(ctx.tlc("Keep", "Sim_Keep.cfg", workers=1, timeout=900, simulate="num=%d" % (150 if q else 2500), depth=13, tag="random histories, 2 builders, 3 targets"))
    life.replay(ctx, "life-keep", kb, env={"GODEBUG": "clobberfree=1"})
    ctx.cov["rule"] = ("signatures: TLC enumerates parameter groups (type x repetition) x variadic x results over the type alphabet; one witness "
                       "per distinct (integer registers used, float registers used, stack used) class for parameters and results, plus long "
                       "signatures that spill both register files; each witness: Apply (callback compares every argument with what the caller "
                       "sent, results compared by the caller) and Return stub, 5 call forms (direct, func value, deferred, other goroutine, deep "
                       "recursion in a fresh goroutine = moved stack), right after apply, after forced GCs under clobberfree, after reset; with "
                       "logging off and debug logging; histories with builders dropped and collections at TLC-chosen points (Keep.tla) for function, method, "
                       "by-name function, by-name method and generic-instantiation targets")
    ctx.assumptions += ["the ABI model is a transcription of Go's internal ABI document, not derived from the compiler; signatures outside the alphabet are not covered",
                        "library-code callers are represented by func-value and goroutine forms (no stdlib function is patched)"]
