"""C04 — conditional stubs select by first matching condition, else default, else panic.
Spec: When.tla, one TLC run per signature class; every enumerated configuration is built
through the real API and every call of the domain is made for real."""
from lib import vlib
from lib.replay import replay_family

CLASSES = ["f1", "f2", "v0", "v1", "v2", "m1", "mv", "n1", "t2", "tv"]


def classify(ro):
    pass


def run(ctx):
    q = ctx.quick()
    total = 0
    for name in CLASSES:
        sig = "<- Sig" + name.upper()
        one = {"Sig": sig, "V": "{0, 1}" if q else "{0, 1, 2}", "MaxTail": 2, "MaxClauses": 1, "R": "{1}"}
        r = ctx.tlc("MC_When", "MC_When.cfg", workers=1, timeout=1500, constants=one, tag="%s: every 1-clause configuration" % name)
        behs = ctx.behaviours(r)
        two = {"Sig": sig, "V": "{0, 1}", "MaxTail": 2, "MaxClauses": 2 if q else 3, "R": "{1, 2}"}
        r2 = ctx.tlc("MC_When", "MC_When.cfg", workers=1, timeout=1500, constants=two, simulate="num=%d" % (150 if q else 3000),
                     depth=8, tag="%s: random multi-clause configurations" % name)
        seen = set()
        for b in ctx.behaviours(r2):
            k = repr(b)
            if k not in seen:
                seen.add(k)
                behs.append(b)
        if not q and name in ("f1", "v1", "m1"):
            ex = dict(two, MaxClauses=2, MaxTail=1)
            behs += ctx.behaviours(ctx.tlc("MC_When", "MC_When.cfg", workers=1, timeout=3000, constants=ex,
                                           tag="%s: every 2-clause configuration, tail<=1" % name))
        if not behs:
            raise vlib.Broken("no configurations for " + name)
        total += len(behs)
        replay_family(ctx, "when", behs, env={"VERIF_SIG": name}, classify=classify)
    # conditional stubs on INTERFACE methods: two stubbed methods of one variable, the builder dropped, collections, then calls of either
    # method - the configured results, never garbage (Iface.tla kinds stub / when; replayed under clobberfree)
    gd = ctx.tlc("MC_Iface", "Gen_Iface.cfg", workers=1, timeout=1500, constants={"MaxOps": 5, "V": '{"i1"}', "M": "<- M1h", "Kinds": '{"stub", "when"}', "Args": "{7}", "Ops": '{"Mock", "Drop", "GC", "Call"}'},
                 tag="interface stubs: two methods of one variable, Drop, GC, Call")
    db = [b for b in ctx.behaviours(gd) if b[-1]["op"] == "Call" and "GC" in {x["op"] for x in b} and sum(1 for x in b if x["op"] == "Mock") >= 2]
    replay_family(ctx, "iface", db, env={"GODEBUG": "clobberfree=1"}, batch=4000)
    # stubs with MANY conditions (Scale.tla: 1..120 conditions, every argument 0..n+1 called; chained and re-looked-up handles)
    from checks import life
    life.scale(ctx, 60, 1200, ops={"CondStub"})
    ctx.cov["exhaustive"] = True
    ctx.cov["rule"] = ("for each of 10 signature classes (1/2 fixed, variadic with 0/1/2 leading fixed, method, variadic method, typed string+pointer, typed variadic strings, "
                       "no result) TLC enumerates every well-formed configuration (optional default; clauses with one "
                       "expression per actual argument from {value, Any, In(set)}; In-clauses of two tuples) within the stated "
                       "bounds, checks mechanism=requirement for every call tuple (tail length 0..2), and each configuration is "
                       "built through the real API and every call tuple executed; distinct = configurations")
    ctx.note("configurations replayed: %d" % total)
