"""C08 — variable mocks. Spec: spec/VarMock.tla. Direction A (spec -> code)."""
import json, os
from lib import vlib
from lib.replay import replay_family


def run(ctx):
    q = ctx.quick()
    # 1. design level: mechanism => requirement, exhaustively within the bounds
    r = ctx.tlc("MC_VarMock", "MC_VarMock.cfg", workers=8, timeout=600,
                constants=None if q else {"MaxOps": 9}, tag="exhaustive mechanism=>requirement")
    ctx.note("MC_VarMock: %d generated / %d distinct, no invariant or action property violated" % (r["generated"], r["distinct"]))
    # 2. behaviours: every history up to depth D (1 builder, 2 variables, 3 values), + long random ones
    depth = 3 if q else 4
    g = ctx.tlc("MC_VarMock", "Gen_VarMock.cfg", workers=1, timeout=900, constants={"MaxOps": depth},
                tag="all histories of depth %d" % depth)
    behs = ctx.behaviours(g)
    sim = ctx.tlc("MC_VarMock", "Sim_VarMock.cfg", workers=1, timeout=600,
                  simulate="num=%d" % (300 if q else 5000), depth=13, tag="random long histories (3 vars, 2 builders)")
    behs += ctx.behaviours(sim)
    # kept VarMock values (b.Var(&x) once, the returned value used again, also after Cancel/Reset)
    held = {"Vias": '{"lookup", "held"}'}
    ctx.tlc("MC_VarMock", "MC_VarMock.cfg", workers=8, timeout=900, constants=dict(held, MaxOps=6 if q else 8), tag="exhaustive with kept handles")
    behs += ctx.behaviours(ctx.tlc("MC_VarMock", "Gen_VarMock.cfg", workers=1, timeout=900, constants=dict(held, MaxOps=depth + 1, X='{"x1"}', V='{"a", "b"}', X0="<- X0_1", Owner="<- Owner_1"),
                                   tag="all histories with kept handles of depth %d, one variable" % (depth + 1)))
    behs += ctx.behaviours(ctx.tlc("MC_VarMock", "Sim_VarMock.cfg", workers=1, timeout=600, constants=held,
                                   simulate="num=%d" % (150 if q else 3000), depth=13, tag="random long histories with kept handles"))
    if not behs:
        raise vlib.Broken("no behaviours generated")
    replay_family(ctx, "var", behs, exhaustive_depth=depth)
    # the same at scale (Scale.tla bound to 64 variables: groups, one shared builder / a builder each, cancel one by one)
    from checks import life
    life.scale(ctx, 60, 1500, family="scale-var")
    ctx.cov["exhaustive"] = True
    ctx.cov["rule"] = ("every history of Set/Apply/Cancel/Reset of length %d over 1 builder x 2 variables x 3 values "
                       "(exhaustive) plus seeded random histories of length 12 over 2 builders x 3 variables, each replayed "
                       "on 14 variable types by pointer and 9 by name; distinct = distinct (history, type) pairs; "
                       "non-trivial = history contains a mutating op" % depth)
    ctx.assumptions += ["two builders never mock the same variable (the property speaks of 'that builder')",
                        "stale handles after Cancel are not used",
                        "unexported-by-name variables of interface type are excluded (goom documents that Set's "
                        "value type must equal the variable type)"]
