"""C02 — Reset/Cancel restore behaviour and exact bytes; image = pristine + entry jumps + placeholders.
Spec: Goom.tla with one and two builders; the replay compares the whole .text with the pristine
snapshot after every step."""
from checks import life


def run(ctx):
    q = ctx.quick()
    one = {"B": '{"b1"}', "T": '{"f", "g"}', "CB": '{"c1"}', "RS": "<- RS_1", "A": "{0}", "Ops": "<- ImageOps"}
    two = dict(one, B='{"b1", "b2"}')
    life.mc(ctx, dict(two, MaxOps=4 if q else 5, Ops="<- AllOps"), tag="exhaustive, 2 builders sharing targets")
    behs = life.gen(ctx, one, 3 if q else 4, "all histories of the image alphabet, 1 builder")
    behs += life.gen(ctx, two, 2 if q else 3, "all histories of the image alphabet, 2 builders on shared targets")
    behs += life.sim(ctx, dict(two, Ops="<- AllOps", RS="<- RS_12", A="{0, 1}", CB='{"c1", "c2"}'),
                     250 if q else 4000, 12, "random histories, 2 builders, all ops")
    held = dict(one, T='{"f"}', Ops="<- ImageHeldOps")
    behs += life.gen(ctx, held, 3 if q else 4, "all histories incl. kept mocker handles re-used after Cancel/Reset, 1 target")
    behs += life.sim(ctx, dict(one, Ops="<- HeldOps", RS="<- RS_12", A="{0, 1}"), 150 if q else 3000, 12, "random histories with kept handles")
    life.replay(ctx, "life", behs)
    # instantiations of generic functions (goom patches the shape body behind the wrapper; no parameters, hence no When)
    gen = {"B": '{"b1"}', "T": '{"f", "g"}', "CB": '{"c1"}', "RS": "<- RS_12", "A": "{0}", "Ops": "<- GenericOps"}
    gb = life.gen(ctx, gen, 3 if q else 4, "all histories over generic instantiations incl. kept handles")
    gb += life.sim(ctx, dict(gen, B='{"b1", "b2"}', T='{"f", "g", "h"}', CB='{"c1", "c2"}'), 100 if q else 2000, 12, "random histories over generic instantiations")
    life.replay(ctx, "life-generic", gb)
    # function LITERALS as targets (symbols pkg.glob..funcN): only the literal's own entry may change, never a function it calls
    lb = life.gen(ctx, dict(one, Ops="<- ImageHeldOps"), 2 if q else 3, "image alphabet over function literals incl. kept handles")
    life.replay(ctx, "life-literal", lb)
    # one builder holding a function mock, a variable mock and an interface mock at once (Mix.tla)
    mb = ctx.behaviours(ctx.tlc("Mix", "Gen_Mix.cfg", workers=1, timeout=900, constants={"MaxOps": 4}, tag="mixed builder: all histories"))
    mb = [b for b in mb if len({s.get("fam") for s in b} - {"all", None}) >= 2 and any(s["op"] == "Reset" for s in b)]
    mb += ctx.behaviours(ctx.tlc("Mix", "Sim_Mix.cfg", workers=1, timeout=900, simulate="num=%d" % (200 if q else 2000), depth=15, tag="mixed builder: random histories"))
    from lib.replay import replay_family
    replay_family(ctx, "mix", mb, env={"GODEBUG": "clobberfree=1"}, classify=life.classify)
    # the same on many objects at once (Scale.tla): 64 targets in groups, shared / own builders, long stubs
    life.scale(ctx, 60, 1500)
    ctx.cov["exhaustive"] = True
    ctx.cov["rule"] = ("every history over {Apply, Origin+Apply, Return, When, Cancel, Reset} to the stated depth for one "
                       "builder and for two builders sharing both targets, plus seeded random length-12 histories; after "
                       "EVERY step the driver diffs the whole .text against the pristine snapshot (allowed: 13 entry bytes "
                       "of targets the spec says are mocked, bodies of placeholders handed to goom) and after the final "
                       "Reset checks page permissions; 4 handle kinds; a fifth kind (instantiations of parameterless generic functions, image "
                       "compared at the shape body, the int64 instantiations as bystanders) over its own alphabet; non-trivial = contains a mutating op")
    ctx.assumptions += ["call results of a target touched by two builders are unconstrained; its bytes are not"]
