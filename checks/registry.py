"""Single source of truth for MANIFEST.json (bin/mkmanifest)."""
HOOK_COMMITS = ["c3a3c99"]
NOT_APPLICABLE = {}
CLAIMED = {
 "C08": {
  "ref": "DESIGN.md §4 C08",
  "technique": "TLA+ spec VarMock.tla model-checked with TLC; all histories up to a depth printed by TLC and replayed on the real API over a variable zoo",
  "text": "spec/VarMock.tla models the variable-mock mechanism (cache entry, capture-once origin, Cancel, Reset) next to the requirement of C08 (pre-mock value per builder); TLC checks mechanism=>requirement exhaustively (3 variables, 2 builders, 3 values, depth 7/9) and enumerates every history of Set/Apply/Cancel/Reset up to depth 3 (quick) / 4 (thorough) plus seeded random depth-12 histories; each history is replayed through goom's public API on 14 variable types by pointer and 9 by package.name and the variable contents read back after every step are compared with the specification's required value.",
  "note": "Trusted: TLC, the Go replayer (harness/drv) and its token<->value binding; two builders never mock the same variable; stale handles are not used; by-name interface variables excluded (documented goom limitation).",
 },
 "C02": {
  "ref": "DESIGN.md §4 C02",
  "technique": "TLA+ lifecycle spec Goom.tla (mechanism + requirement layers) model-checked with TLC; TLC-enumerated histories replayed on the real library with a full .text diff after every step",
  "text": "spec/Goom.tla models entry bytes, placeholder bodies, the global patch table with its captured origin bytes, per-builder mocker caches and When objects next to the requirement state of C02; TLC checks exhaustively (2 builders sharing 2 targets, all ops, depth 4/5) that the entry of a target is diverted only while it is mocked, that captured origin bytes are always pristine, that Reset(b) restores every target b configured and that an op on one target never changes another; every history of the image alphabet to depth 3/4 (1 builder) and 2/3 (2 builders) plus seeded random length-12 histories is replayed through Func / Struct.Method / ExportFunc / ExportMethod handles and after EVERY step the driver compares the whole executable .text with the pristine snapshot: only the 13 entry bytes of targets the spec says are mocked and the bodies of placeholders handed to goom may differ, entries must be either pristine or a complete jump, and after the final Reset no page of the image is writable.",
  "note": "Trusted: TLC, the Go replayer and its image projection (/proc/self/maps, ELF .text bounds); call results of a target touched by two builders are not constrained (bytes are); memory outside the loaded image is not inspected here.",
 },
 "C12": {
  "ref": "DESIGN.md §4 C12",
  "technique": "TLA+ lifecycle spec Goom.tla model-checked with TLC; every history of the stub alphabet to a depth replayed through four handle kinds with explicit calls as oracle-checked steps",
  "text": "The requirement layer of spec/Goom.tla is 'last instruction wins per target, When clauses accumulate across lookups, Apply supersedes stubs, Return/When after Apply supersede the callback, fresh start after Cancel/Reset'; the mechanism layer mirrors builder cache / mocker / When object. TLC checks mechanism=>requirement for every call in every reachable state (1 builder, 2 targets, 2 callbacks, result sequences, depth 4/5) and prints every history to depth 3/4 (1 target) and 2/3 (2 targets) plus seeded random length-10 histories over all ops; each is replayed on the real API with every Call's result compared to the required one.",
  "note": "Trusted: TLC, Go replayer. Left unconstrained (property text silent): a bare Return/Returns on a handle that already has stubs; targets touched by two builders. Pkg() override and Interface/Var handles are covered by C07/C08 specs, not here.",
 },
 "C05": {
  "ref": "DESIGN.md §4 C05",
  "technique": "TLA+ specs Goom.tla (cursor per stub) and Seq.tla (atomic steps of Result) model-checked with TLC; every TLC interleaving replayed on real goroutines through gate hooks; free-running traces validated by TLC (Trace_Seq.tla)",
  "text": "Sequential: Goom.tla keeps one cursor per stub (default and each condition) in both the mechanism and the requirement layer; TLC checks every call's result against 'k-th selection returns element min(k,n)' and all histories of Return/Returns/When/Call/Reset to depth 3/4 plus random call strings of length 14 are replayed on the real API. Concurrent: Seq.tla has the three atomic steps of BaseMatcher.Result as separate actions; TLC checks range, per-caller monotonicity, real-time stickiness of the last element and real-time monotonicity over every interleaving (2-3 callers), prints every complete interleaving, and the driver replays each one deterministically on real goroutines through the matcher.loaded hook comparing every returned element; racing free-running callers under the race detector record start/end tickets and TLC accepts the trace iff some interleaving of the unlogged Load/Add steps explains it (a corrupted copy must be rejected on every run).",
  "note": "Trusted: TLC, the gate scheduler (one goroutine runs at a time; 3 s step timeout is exit 2, not a violation), ticket ordering (overlapping calls are treated as concurrent, which only makes the check more permissive). Requires the verif hooks (matcher.loaded / matcher.added).",
 },
 "C20": {
  "ref": "DESIGN.md §4 C20",
  "technique": "TLA+ spec StubAlloc.tla model-checked with TLC; every interleaving of the lock-free fallback replayed on the real allocator through gate hooks; recorded regions validated by TLC (Trace_Stub.tla)",
  "text": "StubAlloc.tla models Acquire: the mmap path as a fresh-region action and the reserve fallback as its two atomic steps (load; add+checks). TLC checks pairwise disjointness, containment in the reserve, size and no-overrun over every interleaving of 2-3 processes x requests x sizes with the primary path succeeding or failing, prints every complete interleaving of the fallback, and an in-package driver replays each on the real acquireFromHolder (reserve shrunk to R units so exhaustion is reached) through the holder.loaded hook comparing every granted offset / error. Free-running goroutines request through public Acquire and the fallback up to exhaustion; each region is written through stub.Write, executed, looked up in /proc/self/maps, and TLC evaluates StubAlloc's invariants on the recorded regions (an overlapping copy must be rejected).",
  "note": "Trusted: TLC, the gate scheduler, rank compression of addresses (order preserving). The mmap path's freshness is the kernel's; we check disjointness of what it returned. Requires the verif hooks.",
 },
 "C19": {
  "ref": "DESIGN.md §4 C19",
  "technique": "TLA+ lifecycle spec Goom.tla with logging switches as actions that change only the logging variable; TLC-generated behaviours replayed on the real library under four logging configurations against a logging-free oracle",
  "text": "In spec/Goom.tla OpenDebug/CloseDebug/OpenTrace/CloseTrace are actions that change only `lg`, and Apply records whether the replacement was wrapped by the debug interceptor; the requirement layer has no logging variable. TLC checks mechanism=>requirement with the switches interleaved everywhere (depth 4/5) and generates histories with switches at TLC-chosen points; the same behaviours are replayed under logging off, OpenDebug, OpenTrace and GOOM_DEBUG=1 (4 handle kinds), and every call result / image observation must equal the logging-free requirement. The driver counts steps performed with debug open so a vacuous run is exit 2.",
  "note": "Trusted: TLC, Go replayer. Values in this family are ints; rendering of nil pointers / nil interfaces / cyclic structures by the debug interceptor is exercised by the C01 signature zoo replayed under debug (see C01).",
 },
 "C04": {
  "ref": "DESIGN.md §4 C04",
  "technique": "TLA+ spec When.tla (requirement + mechanism of clause matching) model-checked with TLC per signature class; every enumerated stub configuration built on the real API and every call tuple of the domain executed",
  "text": "When.tla states the requirement on the flat list of actual arguments (first registered clause whose expressions all accept, else default, else 'no suitable condition' panic; receiver ignored; variadic tail element by element) and mirrors the mechanism (reflect values incl. receiver and tail slice, strip, expand the tail, length check, evaluate). For each of 8 signature classes TLC enumerates every well-formed 1-clause configuration (expressions from value / Any / In(set), In-clauses of two tuples, optional default) and random (quick) or all (thorough, tail<=1) multi-clause configurations, checks mechanism=requirement for every call tuple with tail length 0..2, and the driver builds each configuration through Return/When/In on a corpus function of that class and performs every call for real, comparing result or panic class.",
  "note": "Trusted: TLC, Go replayer. Well-formed = default first, clauses with at least as many expressions as the function has parameters (goom's documented arity rule); When() with zero expressions and When.Eval on variadic functions are outside the statement. Argument values are small ints here; value kinds are C09/C18.",
 },
}
