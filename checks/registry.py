"""Single source of truth for MANIFEST.json (bin/mkmanifest)."""
HOOK_COMMITS = []
NOT_APPLICABLE = {}
CLAIMED = {
 "C08": {
  "ref": "DESIGN.md §4 C08",
  "technique": "TLA+ spec VarMock.tla model-checked with TLC; all histories up to a depth printed by TLC and replayed on the real API over a variable zoo",
  "text": "spec/VarMock.tla models the variable-mock mechanism (cache entry, capture-once origin, Cancel, Reset) next to the requirement of C08 (pre-mock value per builder); TLC checks mechanism=>requirement exhaustively (3 variables, 2 builders, 3 values, depth 7/9) and enumerates every history of Set/Apply/Cancel/Reset up to depth 3 (quick) / 4 (thorough) plus seeded random depth-12 histories; each history is replayed through goom's public API on 14 variable types by pointer and 9 by package.name and the variable contents read back after every step are compared with the specification's required value.",
  "note": "Trusted: TLC, the Go replayer (harness/drv) and its token<->value binding; two builders never mock the same variable; stale handles are not used; by-name interface variables excluded (documented goom limitation).",
 },
}
