"""C16 — the bundled x86-64 decoder: total, and exact on compiler-emitted code.
Spec: X86Format.tla (instruction-format model), X86Core.tla (its claimed domain), Gen_X86.tla
(spec -> code encodings), Trace_X86.tla (judge)."""
import glob, json, os, subprocess
from lib import vlib

GO_BINS = ["/usr/lib/go-1.23/bin/gofmt", "/usr/lib/go-1.23/pkg/tool/linux_amd64/link", "/usr/lib/go-1.23/pkg/tool/linux_amd64/compile"]


def judge(ctx, path, tag):
    lines = open(path).read().splitlines()
    chunk = 120000
    tally = {"ok": 0, "outside": 0, "gap": 0}
    for i in range(0, len(lines), chunk):
        part = lines[i:i + chunk]
        open(os.path.join(ctx.specdir(), "trace.ndjson"), "w").write("\n".join(part) + "\n")
        r = ctx.tlc("Trace_X86", "Trace_X86.cfg", workers=1, timeout=2400, tag="%s records %d..%d" % (tag, i, i + len(part)), jvm="-Xss64m")
        summ = [x for x in ctx.behaviours(r) if isinstance(x, dict) and x.get("summary")]
        if not summ:
            raise vlib.Broken("no summary from Trace_X86: " + r["out"][-800:])
        for k in tally:
            tally[k] += summ[0]["tally"][k]
        for what, idx in summ[0]["bad"]:
            e = json.loads(part[idx - 1])
            hexs = " ".join("%02x" % b for b in e["b"])
            ctx.violation("x86 decoder on [%s] (%d bytes supplied, source %s): %s; decoder says err=%s len=%d pcrel=%d@%d op=%s %s" % (
                hexs, e["n"], e["src"], what, e["err"], e["len"], e["rel"], e["off"], e["op"], e["panic"]),
                {"family": "x86", "kind": what, "bytes": e["b"], "n": e["n"], "src": e["src"], "decoder": {k: e[k] for k in ("err", "len", "rel", "off", "op", "panic")}})
    ctx.cov["traces_validated_against_impl"] += len(lines)
    ctx.count(len(lines))
    ctx.cov["distinct_nontrivial"] += tally["ok"]
    ctx.note("%s: %d records: %d judged and in agreement, %d outside the model's claimed domain, %d model gaps" % (
        tag, len(lines), tally["ok"], tally["outside"], tally["gap"]))
    return tally


def differential(ctx, q):
    """goom's decoder against the Go toolchain's own copy of x/arch x86asm on the .text of real binaries"""
    roots = [subprocess.run(["go", "env", "GOROOT"], capture_output=True, text=True).stdout.strip()] + sorted(glob.glob("/usr/lib/go-*")) + sorted(glob.glob("/opt/veriftools/go*"))
    files, src = None, None
    for root in roots:
        d = os.path.join(root, "src/cmd/vendor/golang.org/x/arch/x86/x86asm")
        srcs = [f for f in sorted(glob.glob(os.path.join(d, "*.go"))) if not f.endswith("_test.go")]
        if srcs:
            files, src = {"zzverif/refx86/" + os.path.basename(f): open(f).read() for f in srcs}, d
            break
    if files is None:
        ctx.note("no reference x86 decoder found under GOROOT/src/cmd/vendor: only the format model judged agreement")
        ctx.assumptions.append("reference decoder sources absent: only the format model judged agreement")
        return
    ov = ctx.extra_overlay(ctx.overlay(["x86", "x86diff"]), files)
    binary = ctx.build_test("internal/arch/x86asm", ["x86", "x86diff"], name="x86diff", overlay=ov)
    bins = [None] + ([] if q else [b for b in GO_BINS if os.path.exists(b)])
    for b in bins:
        out = ctx.path("x86diff.ndjson")
        env = {"VERIF_OUT": out, "VERIF_KEEP": "50" if q else "20"}
        if b:
            env["VERIF_BIN"] = b
        tag = "reference differential, .text of " + (os.path.basename(b) if b else "the driver binary")
        rc, o = ctx.run_bin(binary, "^TestVerifX86Diff$", env=env, timeout=900)
        if rc != 0 or not os.path.exists(out):
            ctx.violation("the x86 differential driver crashed: " + o[-800:], {"family": "x86", "kind": "crash", "tail": o[-2000:]})
            continue
        lines = open(out).read().splitlines()
        open(os.path.join(ctx.specdir(), "trace.ndjson"), "w").write("\n".join(lines) + "\n")
        r = ctx.tlc("Trace_X86", "Trace_X86.cfg", workers=1, timeout=2400, tag=tag, jvm="-Xss64m")
        summ = [x for x in ctx.behaviours(r) if isinstance(x, dict) and x.get("summary")]
        if not summ:
            raise vlib.Broken("no summary from Trace_X86: " + r["out"][-800:])
        tot = json.loads(lines[-1])
        for what, idx in summ[0]["bad"]:
            e = json.loads(lines[idx - 1])
            if e["src"] == "dsum":
                ctx.violation("%s: %d of %d distinct instructions disagree with the reference decoder: %s" % (tag, e["differ"], e["uniq"], what),
                              {"family": "x86", "kind": what, "bin": b or "driver"})
                continue
            hexs = " ".join("%02x" % x for x in e["b"])
            ctx.violation("x86 decoder on [%s] (%s): %s; goom says err=%s len=%d pcrel=%d@%d op=%s %s, the reference decoder says err=%s len=%d pcrel=%d@%d op=%s" % (
                hexs, tag, what, e["err"], e["len"], e["rel"], e["off"], e["op"], e["panic"], e["rerr"], e["rlen"], e["rrel"], e["roff"], e["rop"]),
                {"family": "x86", "kind": what, "bytes": e["b"], "decoder": {k: e[k] for k in ("err", "len", "rel", "off", "op")},
                 "reference": {k: e[k] for k in ("rerr", "rlen", "rrel", "roff", "rop")}})
        ctx.cov["traces_validated_against_impl"] += len(lines)
        ctx.cov["evaluations"] += tot["uniq"]
        ctx.cov["distinct_nontrivial"] += tot["agree"]
        ctx.note("%s (%s): %d instructions, %d distinct, %d agree with the reference on boundary, opcode and PC-relative field, %d differ; %d functions end in bytes the reference does not decode" % (
            tag, src, tot["total"], tot["uniq"], tot["agree"], tot["differ"], tot["refstop"]))
        if tot["uniq"] < 20000:
            raise vlib.Broken("too few instructions compared (%d): vacuous" % tot["uniq"])


def run(ctx):
    q = ctx.quick()
    g = ctx.tlc("Gen_X86", "Gen_X86.cfg", workers=1, timeout=900, tag="format grammar over Core: encodings + model sanity",
                constants=None if q else {"Rex": "{0, 72, 65, 79, 68}", "ModRMs": "{0, 4, 5, 12, 64, 68, 69, 128, 132, 133, 192, 193, 255}", "Sibs": "{36, 37, 229, 13}"})
    encs = ctx.behaviours(g)
    if not encs:
        raise vlib.Broken("no generated encodings")
    gen = ctx.path("gen.ndjson")
    vlib.write_ndjson(gen, encs)
    ctx.note("Gen_X86: %d encodings generated from the model's grammar; ModelSane holds" % len(encs))
    binary = ctx.build_test("internal/arch/x86asm", ["x86"], name="x86")
    out = ctx.path("x86.ndjson")
    env = {"VERIF_OUT": out, "VERIF_GEN": gen, "VERIF_MUT": "20000" if q else "150000", "VERIF_FUZZ": "50000" if q else "400000"}
    rc, o = ctx.run_bin(binary, "^TestVerifX86Sweep$", env=env, timeout=900, args=["-test.v"])
    if rc != 0:
        ctx.violation("the decoder driver crashed (a panic escaped recover, or a fatal error): " + o[-800:], {"family": "x86", "kind": "crash", "tail": o[-2000:]})
        return
    t = judge(ctx, out, "driver binary .text + generated + mutated + truncated + random")
    ctx.sample(json.loads(open(out).readline()))
    if t["ok"] < 50000:
        raise vlib.Broken("too few judged records (%d): vacuous" % t["ok"])
    differential(ctx, q)
    if not q:
        for b in GO_BINS:
            if not os.path.exists(b):
                continue
            out2 = ctx.path("x86b.ndjson")
            rc, o = ctx.run_bin(binary, "^TestVerifX86Sweep$", env={"VERIF_OUT": out2, "VERIF_BIN": b, "VERIF_MUT": "0", "VERIF_FUZZ": "0"}, timeout=900)
            if rc != 0:
                ctx.violation("decoder driver crashed on " + b + ": " + o[-600:], {"family": "x86", "kind": "crash", "bin": b, "tail": o[-1500:]})
                continue
            judge(ctx, out2, ".text of " + os.path.basename(b))
    ctx.cov["rule"] = ("distinct instructions of the .text of large Go binaries (linear sweep per pclntab function), encodings "
                       "generated by TLC from the format grammar over the claimed domain, operand-mutated real instructions, every "
                       "truncation length, random strings <= 16 bytes; every record judged inside TLC by the format model: totality "
                       "(no panic, len in 1..15 and <= supplied, PC-relative field inside) on ALL records, exactness (length, PC-rel "
                       "field position/width, branch class) on the claimed domain Core; plus boundary, opcode and PC-relative field of every distinct "
                       "instruction of real .text compared with the reference decoder (boundaries are the reference's), every kept record and "
                       "the summary judged by TLC; distinct_nontrivial = records judged ok")
    ctx.assumptions += ["claimed domain = X86Core.tla (281 opcode-map/opcode//reg signatures that occur in compiler-generated code); "
                        "VEX/EVEX and encodings outside Core are checked for totality only",
                        "mnemonic agreement beyond the branch class is decided against the Go toolchain's own copy of x/arch x86asm on the .text of real "
                        "binaries (same lineage as goom's copy: a mistake common to both is seen only where the format model covers it)"]
