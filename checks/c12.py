"""C12 — within a builder the most recent instruction wins. Spec: Goom.tla (1 builder)."""
from checks import life


def run(ctx):
    q = ctx.quick()
    base = {"B": '{"b1"}', "T": '{"f", "g"}', "CB": '{"c1", "c2"}', "RS": "<- RS_12", "A": "{0, 1}", "Ops": "<- StubOps"}
    life.mc(ctx, dict(base, MaxOps=4 if q else 5))
    # (two callbacks: closures of ONE function literal that differ only in what they capture)
    behs = life.gen(ctx, dict(base, T='{"f"}'), 3 if q else 4, "all histories of the stub alphabet, 1 target, 2 callbacks")
    behs += life.gen(ctx, dict(base, CB='{"c1"}'), 2 if q else 3, "all histories of the stub alphabet, 2 targets")
    behs += life.sim(ctx, dict(base, Ops="<- HeldOps", RS="<- RS_3"), 250 if q else 4000, 10, "random histories, all ops, kept handles")
    life.replay(ctx, "life", behs)
    # Pkg override applies to the next lookup only (spec/Pkg.tla)
    from lib.replay import replay_family
    g = ctx.tlc("Pkg", "Gen_Pkg.cfg", workers=1, timeout=600, constants={"MaxOps": 4 if q else 6}, tag="Pkg override: all histories")
    replay_family(ctx, "pkg", ctx.behaviours(g))
    # interface variables: handles kept across Reset (b.Interface(&v) and .Method(m) values used again) - a fresh configuration starts
    # from scratch: methods mocked before the Reset answer 'method not implements' afterwards (Iface.tla, HeldOps)
    gh = ctx.tlc("MC_Iface", "Gen_Iface.cfg", workers=1, timeout=1500, constants={"MaxOps": 5, "Ops": "<- HeldOps", "V": '{"i1"}', "M": "<- M1h", "Kinds": '{"stub"}' if q else '{"stub", "apply"}', "Args": "{7}"},
                 tag="interface handles kept across Reset: all histories to depth 5")
    hb = [b for b in ctx.behaviours(gh) if any(x["op"] == "Reset" for x in b) and b[-1]["op"] == "Call"]
    replay_family(ctx, "iface", hb, env={"GODEBUG": "clobberfree=1"}, batch=4000)
    # one function reached through TWO routes of one builder (Struct(&S{}).Method("G") and the method expression Func((*S).G)): the
    # most recent instruction through any handle decides, a Cancel through the older route included (Routes.tla)
    gr = ctx.tlc("Routes", "Gen_Routes.cfg", workers=1, timeout=900, constants={"MaxOps": 5 if q else 6}, tag="two routes to one function: all histories")
    replay_family(ctx, "routes", ctx.behaviours(gr))
    ctx.cov["exhaustive"] = True
    ctx.cov["rule"] = ("every history over {Apply,Return,Returns,When,Cancel,Reset,Call} up to the stated depth on the "
                       "bounded constants plus seeded random length-10 histories over all ops (incl. Origin); each "
                       "replayed through 4 handle kinds (Func, Struct.Method, ExportFunc(.As), ExportMethod(.As)); "
                       "non-trivial = contains a mutating op")
    ctx.assumptions += ["a bare Return/Returns on a handle that already has a stub configuration is left unconstrained "
                        "(property text does not say whether it supersedes or extends)",
                        "targets touched by two builders are unconstrained in call results"]
