"""C15 — emitted jump sequences. Spec: JumpISA.tla (interpreter + requirements), Trace_Jump.tla.
Real emitters are run in-package (amd64) and from check-time copies of the _arm64.go sources."""
import os, re, shutil
from lib import vlib


def a64_overlay(ctx, base):
    files = {}
    for pkg, rel, exports in (("a64patch", "internal/patch/monkey_arm64.go",
                               "func JmpToFunctionValue(a, b uintptr) []byte { return jmpToFunctionValue(a, b) }\n"),
                              ("a64iface", "internal/iface/jmp_arm64.go",
                               "func JmpWithRdx(a uintptr) []byte { return jmpWithRdx(a) }\n")):
        src = open(os.path.join(vlib.REPO, rel)).read()
        src = re.sub(r"^package \w+", "package " + pkg, src, count=1, flags=re.M)
        files["zzverif/%s/emit.go" % pkg] = src + "\n" + exports
    return ctx.extra_overlay(base, files)


def validate(ctx, path, tag):
    evs = vlib.read_ndjson(path)
    chunk = 150000
    nok = 0
    for i in range(0, len(evs), chunk):
        part = evs[i:i + chunk]
        vlib.write_ndjson(os.path.join(ctx.specdir(), "trace.ndjson"), part)
        r = ctx.tlc("Trace_Jump", "Trace_Jump.cfg", workers=1, timeout=1500, expect_violation=True,
                    tag="%s events %d..%d" % (tag, i, i + len(part)), jvm="-Xss64m")
        if r["rc"] != 0:
            raise vlib.Broken("Trace_Jump did not consume the trace: " + r["out"][-1200:])
        summ = [x for x in ctx.behaviours(r) if isinstance(x, dict) and x.get("summary")]
        if not summ:
            raise vlib.Broken("no SUMMARY from Trace_Jump: " + r["out"][-800:])
        nok += summ[0]["nok"]
        for v, idx in summ[0]["bad"]:
            e = part[int(idx) - 1]
            f = sum(x << (16 * k) for k, x in enumerate(e["from"]))
            t = sum(x << (16 * k) for k, x in enumerate(e["to"]))
            d = (t - f) % (1 << 64)
            if d >= 1 << 63:
                d -= 1 << 64
            form = "relative" if e["bytes"][:1] == [0xE9] else "absolute"
            ctx.violation("%s %s emitter: from=0x%x to=0x%x (to-from=%d) bytes=%s -> %s" % (
                e["arch"], e["kind"], f, t, d, " ".join("%02x" % b for b in e["bytes"]), v),
                {"family": "jump", "kind": v, "arch": e["arch"], "emitter": e["kind"], "form": form, "from": hex(f), "to": hex(t),
                 "delta": d, "bytes": e["bytes"]})
    ctx.cov["traces_validated_against_impl"] += len(evs)
    ctx.count(len(evs))
    ctx.sample(evs[len(evs) // 3])
    ctx.note("%s: %d emissions executed by the JumpISA interpreter, %d meet the requirement" % (tag, len(evs), nok))
    return evs


def run(ctx):
    q = ctx.quick()
    r = ctx.tlc("MC_JumpISA", "MC_JumpISA.cfg", workers=8, timeout=600,
                constants=None if q else {"LaneVals": "{0, 1, 2, 255, 256, 4095, 32767, 32768, 65534, 65535}"},
                tag="interpreter/requirement self-consistency on lane grid")
    ctx.note("MC_JumpISA: %d addresses: reference emitters accepted, through/to distinguished" % r["distinct"])
    env = {"VERIF_STRIDE": "257" if q else "1", "VERIF_PATTERNS": "4" if q else "2", "VERIF_RANDOM": "3000" if q else "100000",
           "VERIF_WINDOW": "64" if q else "4096"}
    base = ctx.overlay(["jump"])
    ov = a64_overlay(ctx, base)
    all_evs = 0
    for pkg, name in (("internal/patch", "jpatch"), ("internal/iface", "jiface"), ("zzverif/a64drv", "ja64")):
        binary = ctx.build_test(pkg, ["jump"], name=name, overlay=ov)
        out = ctx.path(name + ".ndjson")
        rc, o = ctx.run_bin(binary, "^TestVerifJumpEmit$", env=dict(env, VERIF_OUT=out), timeout=900)
        if rc != 0 or not os.path.exists(out):
            ctx.violation("an emitter crashed on some address: " + o[-600:], {"family": "jump", "kind": "crash", "pkg": pkg, "tail": o[-1500:]})
            continue
        all_evs += len(validate(ctx, out, pkg))
    # the context register of the entry jump after repeated Applies of closures of one literal (public API, real image)
    from lib.replay import drv_binary
    # (with logging off: under debug logging the callback is wrapped and the loaded function value is the wrapper's - behaviour is C19's)
    rc, o = ctx.run_bin(drv_binary(ctx), "^TestVerifEntryContext$", env={"VERIF_OUT": "1", "VERIF_QUIET": "1"}, timeout=300)
    if rc != 0:
        ctx.violation("the entry jump does not carry the intended context register: " + o[-700:], {"family": "jump", "kind": "entry-context", "tail": o[-2000:]})
    ctx.count(1)
    # the jump back from a trampoline as fixOriginFuncToTrampoline really lays it out behind the copied prologue: relocations of
    # real functions (and of TLC-enumerated prologue streams), judged by Trace_Reloc for the jump back (TailOk) and for the displacement of every relative form goom re-emits (the rest is C03's business)
    from checks import c03
    rb = ctx.build_test("internal/patch", ["reloc"], name="reloc")
    c03.reloc(ctx, rb, {"VERIF_SAMPLE": "2000" if q else "200000", "VERIF_NDIST": "1" if q else "2"}, "trampoline tails, driver binary", only=("V:tail-jump", "V:displacement"))
    c03.streams(ctx, rb, only=("V:tail-jump", "V:displacement"))
    ctx.cov["distinct_nontrivial"] = all_evs
    ctx.cov["exhaustive"] = not q
    ctx.cov["rule"] = ("each 16-bit lane of the destination swept (stride %s) with the other lanes at boundary patterns, (from,to) "
                       "pairs over windows around 0, +-2^31, +-(2^31-5), +-2^32 and seeded random; every emission of the real "
                       "amd64 emitters (in-package) and of the arm64 emitters (sources copied from the working tree at check time) is "
                       "executed by the TLA+ interpreter; all addresses distinct" % env["VERIF_STRIDE"])
