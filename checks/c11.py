"""C11 — independent builders and concurrent callers. Specs: Conc.tla (lock protocol: every interleaving of the
P- and M-section steps), Trace_Conc.tla (hook events of a racing run must be enabled actions of Conc)."""
import json, os, shutil
from lib import vlib
from lib.replay import drv_binary


def stress(ctx, binary, rounds, tag):
    out = ctx.path("conc.ndjson")
    rc, o = ctx.run_bin(binary, "^TestVerifConcStress$", env={"VERIF_OUT": out, "VERIF_ROUNDS": str(rounds), "VERIF_QUIET": "1"}, timeout=1200)
    if "DATA RACE" in o:
        ctx.violation("data race reported by the race detector while independent builders mock disjoint targets: " + o[:1500],
                      {"family": "conc", "kind": "race", "tail": o[:3000]})
        return None
    if "VERIF-HANG" in o:
        blocked = [ln for ln in o.splitlines() if "memory." in ln or "patch." in ln][:12]
        ctx.violation("independent builders over disjoint targets deadlocked: a round of apply/re-stub/reset did not reach quiescence (%s): %s" % (tag, blocked),
                      {"family": "conc", "kind": "deadlock", "run": tag, "blocked_in": blocked, "tail": o[:6000]})
        return None
    if rc != 0 or not os.path.exists(out):
        ctx.violation("concurrent mockers/callers crashed: " + o[-900:], {"family": "conc", "kind": "crash", "tail": o[-2500:]})
        return None
    lines = open(out).read().splitlines()
    nf5 = sum(1 for l in lines if '"call-f5"' in l)
    if nf5:
        ctx.violation("a caller of the steadily mocked method got 3000+(3000+original): its callback's origin placeholder re-entered the mock (%d calls, %s)" % (nf5, tag),
                      {"family": "conc", "kind": "reentered-mock", "calls": nf5, "run": tag})
    shutil.copy(out, os.path.join(ctx.specdir(), "trace.ndjson"))
    r = ctx.tlc("Trace_Conc", "Trace_Conc.cfg", workers=1, timeout=1500, expect_violation=True, tag="trace validation %s, %d events" % (tag, len(lines)), jvm="-Xss64m")
    ctx.cov["traces_validated_against_impl"] += rounds
    ctx.count(len(lines))
    ctx.cov["distinct_nontrivial"] += rounds
    ctx.sample({"trace_head": [json.loads(l) for l in lines[:14]]})
    if r["rc"] != 0:
        which = [ln for ln in r["out"].splitlines() if "Invariant" in ln or "Postcondition" in ln][:2]
        keep = os.path.join(vlib.VERIF, "replays", ctx.pid)
        os.makedirs(keep, exist_ok=True)
        shutil.copy(out, os.path.join(keep, "rejected_trace.ndjson"))
        ctx.violation("hook events of a racing run are not a behaviour of spec Conc (%s): critical sections interleave, a write phase is out "
                      "of order, a caller of a steadily mocked target saw another result, or the image was not clean at quiescence: %s" % (tag, which),
                      {"family": "conc", "kind": "trace-rejected", "which": which, "trace_tail": lines[-40:]})
        return None
    return lines


def run(ctx):
    q = ctx.quick()
    r = ctx.tlc("MC_Conc", "MC_Conc.cfg", workers=8, timeout=900, constants=None if q else {"Procs": "{1, 2, 3}", "PageOf": "<- PO3"},
                tag="lock protocol, every interleaving")
    ctx.note("Conc: %d states; MutexP MutexM XAlways WOnlyInM NoReadWhileWrite Quiescent hold, no deadlock" % r["distinct"])
    # model self-test: a nested read side of the RWMutex (RDepth = 2) must deadlock against a waiting writer
    r0 = ctx.tlc("MC_Conc", "MC_Conc.cfg", workers=4, timeout=600, constants={"RDepth": "2"}, expect_violation=True, tag="self-test: nested RLock deadlocks")
    if "Deadlock reached" not in r0["out"]:
        raise vlib.Broken("Conc with a nested read lock does not deadlock: the reader/writer model is vacuous")
    race = drv_binary(ctx, race=True)
    lines = stress(ctx, race, 40 if q else 600, "race detector on")
    # targets addressed BY NAME (every apply resolves its name in the shared symbol table): four builders on goroutines of their own
    rc, o = ctx.run_bin(race, "^TestVerifConcByName$", env={"VERIF_OUT": "1", "VERIF_ROUNDS": "40" if q else "400", "VERIF_QUIET": "1"}, timeout=900)
    if "DATA RACE" in o:
        ctx.violation("data race reported by the race detector while independent builders mock disjoint targets BY NAME: " + o[:1500],
                      {"family": "conc", "kind": "race-by-name", "tail": o[:3000]})
    elif rc != 0:
        ctx.violation("independent builders mocking disjoint targets by name: " + o[-900:], {"family": "conc", "kind": "by-name", "tail": o[-2500:]})
    ctx.count(1)
    plain = drv_binary(ctx)
    lines2 = stress(ctx, plain, 60 if q else 1500, "no race detector (tighter timing)")
    if lines:
        # binding self-test: swap two adjacent events of different goroutines inside critical sections -> must be rejected
        bad = list(lines)
        for i in range(len(bad) - 1):
            a, b = json.loads(bad[i]), json.loads(bad[i + 1])
            if a["ev"] == "mem.rwx" and b["ev"] == "mem.copied":
                bad[i], bad[i + 1] = bad[i + 1], bad[i]
                break
        open(os.path.join(ctx.specdir(), "trace.ndjson"), "w").write("\n".join(bad) + "\n")
        r2 = ctx.tlc("Trace_Conc", "Trace_Conc.cfg", workers=1, timeout=900, expect_violation=True, tag="self-test: reordered write phases must be rejected")
        if r2["rc"] == 0:
            raise vlib.Broken("Trace_Conc accepted a trace with write phases out of order: the trace spec does not bind")
        ctx.note("Trace_Conc accepted the recorded traces and rejected the corrupted copy")
    # the sequential lifecycle in the race-detector build (instrumented prologues, larger frames, race runtime calls in
    # wrappers): same oracle as C02/C12, a sample of histories per handle kind incl. generic instantiations and interfaces
    from checks import life
    from lib.replay import replay_family
    base = {"B": '{"b1"}', "T": '{"f", "g"}', "CB": '{"c1", "c2"}', "RS": "<- RS_12", "A": "{0, 1}", "Ops": "<- HeldOps"}
    lb = life.sim(ctx, base, 60 if q else 400, 10, "lifecycle histories for the race build")
    replay_family(ctx, "life", lb, race=True, classify=life.classify)
    gb = life.sim(ctx, {"B": '{"b1", "b2"}', "T": '{"f", "g", "h"}', "CB": '{"c1", "c2"}', "RS": "<- RS_12", "A": "{0}", "Ops": "<- GenericOps"},
                  60 if q else 400, 10, "generic-instantiation histories for the race build")
    replay_family(ctx, "life-generic", gb, race=True, classify=life.classify)
    ib = ctx.behaviours(ctx.tlc("MC_Iface", "Sim_Iface.cfg", workers=1, timeout=900, simulate="num=%d" % (60 if q else 400), depth=12, tag="interface histories for the race build"))
    replay_family(ctx, "iface", ib, race=True, batch=4000)
    ctx.cov["rule"] = ("4 mocker goroutines (own builder, own target: three plain functions adjacent in one code page and one instantiation of a generic function, whose wrapper scan reads text outside the patch lock) x rounds of apply/call/re-stub/call/"
                       "reset/call with seeded yields, 3 callers hammering a steadily mocked method whose callback calls the origin "
                       "placeholder; every hook event inside a critical section must be an enabled action of Conc; image + page "
                       "permissions checked at every quiescence; once under the race detector, once without; "
                       "sequential lifecycle / generic / interface histories replayed in the race-detector build")
    ctx.assumptions += ["two goroutines never mock the same target (documented as unsupported by goom)"]
