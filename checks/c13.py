"""C13 — configuration mistakes are rejected up front and leave nothing patched.
 (1) Goom.tla with the Mistake action (ill-formed Apply/Return through the four handle kinds, interleaved with
     well-formed instructions at TLC-chosen points): the call must panic and the observable state - entry bytes,
     whole image, call results - must be exactly what it was;
 (2) Reject.tla: the scenario table for the mistakes outside that alphabet, judged by TLC."""
import json, os
from lib import vlib
from lib.replay import drv_binary
from checks import life


def run(ctx):
    q = ctx.quick()
    base = {"B": '{"b1"}', "T": '{"f", "g"}', "CB": '{"c1"}', "RS": "<- RS_12", "A": "{0, 1}", "Ops": "<- RejectOps"}
    life.mc(ctx, dict(base, MaxOps=4), tag="lifecycle + Mistake")
    behs = life.gen(ctx, dict(base, T='{"f"}', A="{0}", RS="<- RS_1"), 3, "all histories with mistakes, 1 target")
    behs = [b for b in behs if any(s["op"] in ("Mistake", "WhenBad") for s in b)]
    sims = life.sim(ctx, dict(base, CB='{"c1", "c2"}'), 300 if q else 4000, 9, "random histories with mistakes at TLC-chosen points")
    behs += [b for b in sims if any(s["op"] in ("Mistake", "WhenBad") for s in b)]
    life.replay(ctx, "life", behs)
    binary = drv_binary(ctx)
    out = ctx.path("reject.ndjson")
    for env, tag in (({}, "logging off"), ({"VERIF_LOG": "debug"}, "debug logging")):
        rc, o = ctx.run_bin(binary, "^TestVerifRejectScenarios$", env=dict(env, VERIF_OUT=out, VERIF_QUIET="1"), timeout=600)
        if rc != 0 or not os.path.exists(out):
            ctx.violation("a configuration mistake crashed the process (%s): %s" % (tag, o[-800:]), {"family": "reject", "kind": "crash", "tail": o[-2000:]})
            return
        lines = open(out).read().splitlines()
        open(os.path.join(ctx.specdir(), "trace.ndjson"), "w").write("\n".join(lines) + "\n")
        t = ctx.tlc("Trace_Reject", "Trace_Reject.cfg", workers=1, timeout=600, tag="judge %d scenarios (%s)" % (len(lines), tag))
        summ = [x for x in ctx.behaviours(t) if isinstance(x, dict) and x.get("summary")]
        if not summ:
            raise vlib.Broken("no summary from Trace_Reject: " + t["out"][-800:])
        for what, idx in summ[0]["bad"]:
            e = json.loads(lines[idx - 1])
            ctx.violation("mistake %s (prior: %s, %s): %s -- %s" % (e["mistake"], e["prior"], tag, what, json.dumps(e)[:300]),
                          {"family": "reject", "kind": what, "mistake": e["mistake"], "prior": e["prior"], "record": e})
        ctx.cov["traces_validated_against_impl"] += len(lines)
        ctx.count(len(lines))
        ctx.cov["distinct_nontrivial"] += summ[0]["nok"]
        ctx.sample(json.loads(lines[0]))
        ctx.note("%s: %d scenarios, %d as required" % (tag, len(lines), summ[0]["nok"]))
    ctx.cov["rule"] = ("histories of the lifecycle alphabet with ill-formed Apply (arity, size) / Return (too few, wrong size) at every "
                       "position to depth 3 and at TLC-chosen points of random length-9 histories, through 4 handle kinds with the whole-image "
                       "diff after every step; plus a table of 15 further mistakes x prior state {never mocked, mocked by this builder}")
    ctx.assumptions += ["a rejected re-apply with an unusable origin placeholder on an already mocked target may leave it unmocked (the statement only "
                        "protects targets that were not mocked before)",
                        "the cause chain is required to be typed only where goom constructs a typed error (DESIGN C13)"]
