"""C09 — stubbed values reach callers unaltered and typed as declared. Spec: ArgConv.tla (decision table
Req vs transcription of toValue; TLC checks the cells) + Trace_ArgConv.tla judging outcomes recorded from
the real library through Return / Returns / When."""
import json, os
from lib import vlib
from lib.replay import drv_binary


def run(ctx):
    ctx.tlc("MC_ArgConv", "MC_ArgConv.cfg", workers=1, timeout=300, tag="decision table: Impl = Req on every constrained cell")
    binary = drv_binary(ctx)
    out = ctx.path("conv.ndjson")
    tot = 0
    for env, tag in (({}, "logging off"), ({"VERIF_LOG": "debug", "VERIF_QUIET": "1"}, "debug logging")):
        rc, o = ctx.run_bin(binary, "^TestVerifArgConv$", env=dict(env, VERIF_OUT=out), timeout=600)
        if rc != 0 or not os.path.exists(out):
            ctx.violation("delivering a stubbed value crashed the process (%s): %s" % (tag, o[-800:]), {"family": "conv", "kind": "crash", "tail": o[-2000:]})
            return
        lines = open(out).read().splitlines()
        open(os.path.join(ctx.specdir(), "trace.ndjson"), "w").write("\n".join(lines) + "\n")
        t = ctx.tlc("Trace_ArgConv", "Trace_ArgConv.cfg", workers=1, timeout=600, tag="judge %d outcomes (%s)" % (len(lines), tag))
        summ = [x for x in ctx.behaviours(t) if isinstance(x, dict) and x.get("summary")]
        if not summ:
            raise vlib.Broken("no summary from Trace_ArgConv: " + t["out"][-800:])
        for what, idx in summ[0]["bad"]:
            e = json.loads(lines[idx - 1])
            ctx.violation("declared kind %s, supplied %s, through %s (%s): required %s, real outcome %s" % (
                e["kind"], e["class"], e["path"], tag, "see ArgConv.Req", e["outcome"]),
                {"family": "conv", "kind": e["kind"], "class": e["class"], "path": e["path"], "outcome": e["outcome"], "logging": tag})
        tot += len(lines)
        ctx.cov["traces_validated_against_impl"] += len(lines)
        ctx.count(len(lines))
        ctx.cov["distinct_nontrivial"] += summ[0]["tally"]["ok"]
        ctx.note("%s: %d outcomes: %d constrained and as required, %d unconstrained cells" % (tag, len(lines), summ[0]["tally"]["ok"], summ[0]["tally"]["free"]))
        ctx.sample(json.loads(lines[0]))
    ctx.cov["exhaustive"] = True
    ctx.cov["rule"] = ("every existing cell of (13 declared kinds) x (8 supplied classes) x 3 delivery paths (Return, Returns, When), "
                       "with logging off and with debug logging (the interceptor renders the values); distinct = constrained cells judged ok")
    ctx.assumptions += ["cells the statement does not constrain (nil into non-nilable kinds, same-size values of another type or layout) are recorded but not judged",
                        "dynamic type / equality facts come from the Go runtime in the driver; TLC judges against the table"]
