"""C03 — the origin placeholder runs the unmodified original.
 (1) relocation faithfulness: goom's pure relocation on every function of real binaries, judged by TLC
     with the X86Format model (Trace_Reloc.tla, predicates of DESIGN Appendix B);
 (2) control flow of a placeholder call: OriginCall.tla (TLC derives the outcome table incl. the known
     deviation F5) and a stack-depth sweep on the real library judged against that table."""
import json, os
from lib import vlib
from lib.replay import drv_binary

GO_BINS = ["/usr/lib/go-1.23/bin/gofmt", "/usr/lib/go-1.23/pkg/tool/linux_amd64/link"]


def reloc(ctx, binary, env, tag, test="^TestVerifRelocSweep$", minjudged=100, only=None):
    out = ctx.path("reloc.ndjson")
    rc, o = ctx.run_bin(binary, test, env=dict(env, VERIF_OUT=out, VERIF_QUIET="1"), timeout=1200)
    if rc != 0 or not os.path.exists(out):
        ctx.violation("the relocation driver crashed: " + o[-800:], {"family": "reloc", "kind": "crash", "tail": o[-2000:]})
        return
    lines = open(out).read().splitlines()
    chunk = 6000
    tally = {}
    for i in range(0, len(lines), chunk):
        part = lines[i:i + chunk]
        open(os.path.join(ctx.specdir(), "trace.ndjson"), "w").write("\n".join(part) + "\n")
        r = ctx.tlc("Trace_Reloc", "Trace_Reloc.cfg", workers=1, timeout=3000, tag="%s records %d..%d" % (tag, i, i + len(part)), jvm="-Xss256m")
        summ = [x for x in ctx.behaviours(r) if isinstance(x, dict) and x.get("summary")]
        if not summ:
            raise vlib.Broken("no summary from Trace_Reloc: " + r["out"][-800:])
        for k, v in summ[0]["tally"]:
            tally[k] = tally.get(k, 0) + v
        for what, idx in summ[0]["bad"]:
            e = json.loads(part[idx - 1])
            if only is not None and what not in only:
                continue
            ctx.violation("relocation of %s (%d bytes) into a placeholder at origin%+d: %s; function starts [%s], placeholder afterwards [%s] %s" % (
                e["name"], e["size"], -e["d"], what, " ".join("%02x" % b for b in e["fn"][:28]),
                " ".join("%02x" % b for b in e["out"][:40]), e["err"]),
                {"family": "reloc", "kind": what, "name": e["name"], "d": e["d"], "fn": e["fn"][:64], "size": e["size"], "out": e["out"][:48], "err": e["err"]})
    ctx.cov["traces_validated_against_impl"] += len(lines)
    ctx.count(len(lines))
    judged = sum(v for k, v in tally.items() if k.startswith("ok"))
    ctx.cov["distinct_nontrivial"] += judged
    ctx.cov.setdefault("reloc_tally", {})[tag] = tally
    ctx.note("%s: %d relocations judged: %s" % (tag, len(lines), tally))
    if lines:
        ctx.sample({k: v for k, v in json.loads(lines[0]).items() if k not in ("fn",)})
    if judged < minjudged:
        raise vlib.Broken("too few faithful relocations judged (%d): vacuous" % judged)


def origin_depth(ctx):
    table = []
    for split in ("TRUE", "FALSE"):
        for via in ('"mock"', '"ph"'):
            r = ctx.tlc("OriginCall", "MC_OriginCall.cfg", workers=1, timeout=300, constants={"SplitStack": split, "Via": via},
                        tag="OriginCall split=%s via=%s" % (split, via))
            table += [x for x in ctx.behaviours(r) if isinstance(x, dict)]
    allowed = {(x["via"], x["result"], x["mocks"]): sorted(x["dev"]) for x in table}
    ctx.note("OriginCall outcome table from TLC: %s" % sorted((k, v) for k, v in allowed.items()))
    tok = {"orig": "orig", "cbo": "cbo+orig", "cbo-twice": "cbo+cbo+orig"}
    binary = drv_binary(ctx)
    out = ctx.path("origin.ndjson")
    rc, o = ctx.run_bin(binary, "^TestVerifOriginDepth$", env={"VERIF_OUT": out, "VERIF_DEPTHS": "400" if ctx.quick() else "1500", "VERIF_QUIET": "1"}, timeout=900)
    evs = vlib.read_ndjson(out) if os.path.exists(out) else []
    if rc != 0 or not evs:
        ctx.violation("calling the origin placeholder crashed: " + o[-800:], {"family": "origin-depth", "kind": "crash", "tail": o[-2000:]})
        return
    ctx.cov["traces_validated_against_impl"] += len(evs)
    ctx.count(len(evs))
    ctx.cov["distinct_nontrivial"] += len(evs)
    ctx.sample(evs[len(evs) // 2])
    nf5 = 0
    for e in evs:
        key = (e["via"], tok.get(e["res"], e["res"]), e["mocks"])
        if key in allowed and not allowed[key]:
            continue
        if key in allowed and allowed[key] == ["F5"]:
            nf5 += 1
            ctx.violation("placeholder call re-entered the mock (stack growth inside the relocated prologue)",
                          {"family": "origin-depth", "kind": "reentered-mock", "via": e["via"], "handle": e["kind"], "depth": e["depth"], "res": e["res"], "mocks": e["mocks"]})
            continue
        ctx.violation("call via %s on handle %s at depth %d: result %s, replacement entered %d times: not an outcome of spec OriginCall" % (
            e["via"], e["kind"], e["depth"], e["res"], e["mocks"]),
            {"family": "origin-depth", "kind": "unexplained", "via": e["via"], "handle": e["kind"], "depth": e["depth"], "res": e["res"], "mocks": e["mocks"]})
    ctx.note("origin depth sweep: %d calls, %d explained only by the F5 deviation" % (len(evs), nf5))


def streams(ctx, binary, only=None):
    """spec -> code: abstract instruction streams enumerated by TLC (Gen_Reloc.tla), synthesised and relocated for real"""
    import random
    g = ctx.tlc("Gen_Reloc", "Gen_Reloc.cfg", workers=1, timeout=1500, tag="abstract prologue streams")
    ss = ctx.behaviours(g)
    if not ss:
        raise vlib.Broken("no streams")
    if ctx.quick():
        random.Random(ctx.seed).shuffle(ss)
        ss = ss[:4000]
    gen = ctx.path("streams.ndjson")
    vlib.write_ndjson(gen, ss)
    reloc(ctx, binary, {"VERIF_GEN": gen, "VERIF_LATEMAX": "1100" if ctx.quick() else "4200"}, "synthesised streams", test="^TestVerifRelocStreams$", minjudged=300, only=only)


def f5_reuse(ro):
    # known finding F5 (decided by the depth sweep): the origin re-entered the mock
    if str(ro.get("got", "")).startswith("cbo-twice") or str(ro.get("got", "")).startswith("reentered"):
        ro["finding"] = "F5"


def run(ctx):
    q = ctx.quick()
    binary = ctx.build_test("internal/patch", ["reloc"], name="reloc")
    reloc(ctx, binary, {"VERIF_SAMPLE": "2000" if q else "1000000", "VERIF_NDIST": "1" if q else "2"}, "driver binary")
    streams(ctx, binary)
    if not q:
        for b in GO_BINS:
            if os.path.exists(b):
                reloc(ctx, binary, {"VERIF_BIN": b, "VERIF_SAMPLE": "12000", "VERIF_NDIST": "2"}, os.path.basename(b))
    origin_depth(ctx)
    # lifecycle side: placeholders re-used across targets, resets and builders (OriginReuse.tla)
    from lib.replay import replay_family
    ctx.tlc("OriginReuse", "MC_OriginReuse.cfg", workers=8, timeout=900, constants={"MaxOps": 8 if q else 10}, tag="placeholder re-use: which original a placeholder runs")
    ob = ctx.behaviours(ctx.tlc("OriginReuse", "Gen_OriginReuse.cfg", workers=1, timeout=900, constants={"MaxOps": 4 if q else 5}, tag="all histories of ApplyO/Apply/Reset/NewBuilder/Call/CallPh"))
    ob = [b for b in ob if sum(1 for x in b if x["op"] == "ApplyO") >= 1 and any(x["op"] in ("Call", "CallPh") for x in b)]
    ob += ctx.behaviours(ctx.tlc("OriginReuse", "Sim_OriginReuse.cfg", workers=1, timeout=900, simulate="num=%d" % (300 if q else 5000), depth=15, tag="random histories, 3 targets sharing 2 placeholders"))
    replay_family(ctx, "origin-reuse", ob, classify=f5_reuse)
    # function LITERALS as targets (symbols pkg.glob..funcN): apply with origin, calls of the target and of the placeholder
    lit = {"B": '{"b1"}', "T": '{"f", "g"}', "CB": '{"c1"}', "RS": "<- RS_1", "A": "{1}", "Ops": "<- AllOps"}
    from checks import life
    lb = life.gen(ctx, lit, 2 if q else 3, "all histories over function literals")
    replay_family(ctx, "life-literal", lb, classify=life.classify)
    ctx.cov["rule"] = ("relocation: functions of 14..1500 bytes of real binaries (seeded sample in quick, all in thorough) x placeholder "
                       "distances {+1MiB, -2MiB, +64, -96}; each record parsed and judged inside TLC; non-trivial = relocation accepted "
                       "and judged faithful. control flow: 4 handle kinds x {call mocked target, call placeholder} x stack depths in "
                       "fresh goroutines, judged against the outcome table TLC derives from OriginCall.tla")
    ctx.assumptions += ["functions are judged on their first 400 bytes (branches into the prefix from further away are not seen)",
                        "trampolines of arbitrary binary functions are not executed (decode-level faithfulness); corpus targets are executed"]
