"""C14 — a patch touches only the entry bytes; pages stay read+execute. Specs: MemWrite.tla (the write protocol,
every intermediate state), Trace_MemWrite.tla (judge of real writes observed through the mem.* hooks and of every
function of the binary as a prospective target); plus real Apply/Reset with a full image diff (life world)."""
import json, os
from lib import vlib
from checks import life


def judge(ctx, path, tag):
    lines = open(path).read().splitlines()
    if not lines:
        raise vlib.Broken("no records for " + tag)
    nok = 0
    for i in range(0, len(lines), 60000):
        part = lines[i:i + 60000]
        open(os.path.join(ctx.specdir(), "trace.ndjson"), "w").write("\n".join(part) + "\n")
        t = ctx.tlc("Trace_MemWrite", "Trace_MemWrite.cfg", workers=1, timeout=1500, tag="%s: judge %d records" % (tag, len(part)), jvm="-Xss64m")
        summ = [x for x in ctx.behaviours(t) if isinstance(x, dict) and x.get("summary")]
        if not summ:
            raise vlib.Broken("no summary from Trace_MemWrite: " + t["out"][-800:])
        nok += summ[0]["nok"]
        for what, idx in summ[0]["bad"]:
            e = json.loads(part[idx - 1])
            ctx.violation("%s: %s -> %s" % (tag, json.dumps(e)[:400], what), {"family": "memwrite", "kind": what, "record": e})
    ctx.cov["traces_validated_against_impl"] += len(lines)
    ctx.count(len(lines))
    ctx.cov["distinct_nontrivial"] += nok
    ctx.sample(json.loads(lines[len(lines) // 2]))
    ctx.note("%s: %d records, %d meet the requirements" % (tag, len(lines), nok))
    return lines


def run(ctx):
    q = ctx.quick()
    r = ctx.tlc("MemWrite", "MC_MemWrite.cfg", workers=8, timeout=600, constants=None if q else {"NPages": 4, "MaxLen": 18},
                tag="write protocol: every address x length, every intermediate state")
    ctx.note("MemWrite: %d states; XNeverDropped OnlyCovered WritableOnlyLocked CopyNeedsW CopyWhenWritable NoWriteLeft hold" % r["distinct"])
    b1 = ctx.build_test("internal/bytecode/memory", ["mem"], name="memdrv")
    out = ctx.path("mem.ndjson")
    rc, o = ctx.run_bin(b1, "^TestVerifMemWrite$", env={"VERIF_OUT": out, "VERIF_LENSTEP": "3" if q else "1", "VERIF_SPAN": "40" if q else "56"}, timeout=900)
    if rc != 0 or not os.path.exists(out):
        ctx.violation("memory.WriteTo driver crashed: " + o[-800:], {"family": "memwrite", "kind": "crash", "tail": o[-2000:]})
    else:
        lines = judge(ctx, out, "memory.WriteTo around page boundaries")
        if not any('"where":"text"' in l for l in lines):
            ctx.note("the driver found no window of three executable pages inside its own NOP sled: .text straddling writes not exercised")
    b2 = ctx.build_test("internal/patch", ["mem"], name="slotdrv")
    out2 = ctx.path("slots.ndjson")
    rc, o = ctx.run_bin(b2, "^TestVerifSlots$", env={"VERIF_OUT": out2, "VERIF_QUIET": "1"}, timeout=900)
    if rc != 0 or not os.path.exists(out2):
        ctx.violation("prospective-target driver crashed: " + o[-800:], {"family": "memwrite", "kind": "crash", "tail": o[-2000:]})
    else:
        lines = judge(ctx, out2, "every function of the binary as a prospective target")
        recs = [json.loads(l) for l in lines]
        ctx.cov["targets"] = {"functions": len(recs), "accepted": sum(1 for r in recs if r["accepted"]),
                              "min_slot": min(r["slot"] for r in recs), "max_pageoff": max(r["pageoff"] for r in recs)}
    # real patches: the image alphabet replayed with the whole-.text diff after every step and perms at the end
    one = {"B": '{"b1"}', "T": '{"f", "g"}', "CB": '{"c1"}', "RS": "<- RS_1", "A": "{0}", "Ops": "<- ImageOps"}
    behs = life.gen(ctx, one, 2 if q else 3, "image alphabet for real patches")
    life.replay(ctx, "life", behs, env={"VERIF_WRITES": "1"})
    # ... and under trace logging (log level and console level both raised; the writes of a patch and of its removal must be the same 13 bytes whatever is logged)
    life.replay(ctx, "life", behs, env={"VERIF_WRITES": "1", "VERIF_LOG": "trace", "VERIF_QUIET": "1"})
    # function LITERALS as targets: the entry jump must land on the literal's own first byte (image alphabet, writes observed)
    lb = life.gen(ctx, dict(one, T='{"f", "g"}'), 2 if q else 3, "image alphabet over function literals")
    from lib.replay import replay_family as _rf
    _rf(ctx, "life-literal", lb, env={"VERIF_WRITES": "1"}, classify=life.classify)
    # the patch layer itself (internal/patch: Patch / Guard.Apply / Unpatch / Restore / Unpatch(target) / UnpatchAll), spec Patch.tla
    from lib.replay import replay_family
    for disc in ("FALSE", "TRUE"):
        r = ctx.tlc("MC_Patch", "MC_Patch.cfg", workers=8, timeout=900, constants={"Disciplined": disc, "MaxOps": 7 if q else 9},
                    tag="patch layer, Disciplined=%s" % disc)
        ctx.note("MC_Patch Disciplined=%s: %d distinct states; CapPristine EntryValid Tracked AllRestores hold" % (disc, r["distinct"]))
    pb = ctx.behaviours(ctx.tlc("MC_Patch", "Gen_Patch.cfg", workers=1, timeout=900, constants={"MaxOps": 4 if q else 5}, tag="all histories of the patch layer"))
    pb += ctx.behaviours(ctx.tlc("MC_Patch", "Sim_Patch.cfg", workers=1, timeout=900, simulate="num=%d" % (300 if q else 5000), depth=17,
                                 tag="random histories of the patch layer, 3 targets"))
    replay_family(ctx, "patchapi", pb)
    ctx.cov["rule"] = ("WriteTo at every offset in the last 40..56 bytes before and 4 after each inner page boundary x lengths 1..48 on "
                       "a scratch r-x mapping and inside .text (padding function), protections read from /proc/self/maps at every hook "
                       "point inside the critical section and 3-page before/after diff; every function of the binary judged as a target "
                       "(slot vs accepted); real Apply/Reset histories with whole-image diff")
    ctx.assumptions += ["go1.23 aligns function entries to 32 bytes, so an entry jump itself never straddles a page; straddling is driven at the WriteTo layer",
                        "assembly placeholders without padding (extent scan running into the neighbour) are not generated"]
