"""C18 — argument expressions form a consistent predicate algebra. Spec: ArgAlgebra.tla (laws checked by TLC
on a small domain; Judge is the oracle of Trace_Arg.tla for evaluations recorded from the real arg package)."""
import json, os
from lib import vlib
from lib.replay import drv_binary


def run(ctx):
    q = ctx.quick()
    r = ctx.tlc("MC_ArgAlgebra", "MC_ArgAlgebra.cfg", workers=1, timeout=300, tag="laws of the algebra on a 4-class domain")
    binary = drv_binary(ctx)
    out = ctx.path("arg.ndjson")
    rc, o = ctx.run_bin(binary, "^TestVerifArgAlgebra$", env={"VERIF_OUT": out, "VERIF_EXTRA": "4" if q else "24"}, timeout=900)
    if rc != 0 or not os.path.exists(out):
        ctx.violation("evaluating argument expressions crashed: " + o[-800:], {"family": "arg", "kind": "crash", "tail": o[-2000:]})
        return
    lines = open(out).read().splitlines()
    nok = 0
    for i in range(0, len(lines), 100000):
        part = lines[i:i + 100000]
        open(os.path.join(ctx.specdir(), "trace.ndjson"), "w").write("\n".join(part) + "\n")
        t = ctx.tlc("Trace_Arg", "Trace_Arg.cfg", workers=1, timeout=1500, tag="judge %d evaluations" % len(part), jvm="-Xss64m")
        summ = [x for x in ctx.behaviours(t) if isinstance(x, dict) and x.get("summary")]
        if not summ:
            raise vlib.Broken("no summary from Trace_Arg: " + t["out"][-800:])
        nok += summ[0]["nok"]
        for what, idx in summ[0]["bad"]:
            e = json.loads(part[idx - 1])
            ctx.violation("%s on kind %s: pattern %s vs argument %s -> answers %s reversed %s %s (classes %s vs %d): %s" % (
                e["expr"], e["kind"], e["pats"], e["args"], e["res"], e["rev"], e["err"], e["pat"], e["arg"], what),
                {"family": "arg", "kind": what, "valuekind": e["kind"], "expr": e["expr"], "pats": e["pats"], "args": e["args"], "res": e["res"], "rev": e["rev"], "err": e["err"]})
    ctx.cov["traces_validated_against_impl"] += len(lines)
    ctx.count(len(lines))
    ctx.cov["distinct_nontrivial"] = nok
    ctx.sample(json.loads(lines[len(lines) // 2]))
    ctx.note("%d evaluations over 27 value pools judged, %d satisfy the algebra" % (len(lines), nok))
    ctx.cov["rule"] = ("pools per kind (all integer widths with boundary values, floats, strings, bools, structs, arrays, slices, maps, "
                       "pointers, interfaces holding those, funcs, chans, nils, + seeded random values); the partition of each pool by "
                       "Go equality is computed by the driver; every ordered pair (pattern, argument) through Equals evaluated 3 times "
                       "and reversed, Any on every value, In over random subsets; TLC judges each record")
    ctx.assumptions += ["Go equality classes come from the Go runtime in the driver (DeepEqual / == / func identity / nil = nil); TLC judges, it does not derive them",
                        "excluded by the property's wording: NaN, +0 vs -0, distinct closures of one literal"]
