"""C10 — symbol lookup by name. Spec: SymLookup.tla (modes x kinds x presence; mechanism vs requirement checked by
TLC) + Trace_Sym.tla judging one record per function of the pclntab / variable of the zoo, in each link mode."""
import json, os
from lib import vlib


def run(ctx):
    q = ctx.quick()
    ctx.tlc("MC_SymLookup", "MC_SymLookup.cfg", workers=1, timeout=300, tag="modes x kinds x presence: Impl in Req")
    modes = [("symtab", dict(ldflags="-s=false")), ("default", dict(ldflags=None)),
             ("stripped", dict(ldflags="-s -w")), ("pie", dict(ldflags="-s=false", buildmode="pie")),
             ("piestripped", dict(ldflags="-s -w", buildmode="pie")),
             ("external", dict(ldflags="-s=false -linkmode=external")),
             ("externalstripped", dict(ldflags="-s -w -linkmode=external")),
             ("pieexternal", dict(ldflags="-s=false -linkmode=external", buildmode="pie"))]
    runs = []
    for mode, kw in modes:
        try:
            binary = ctx.build_test("zzverif/drv", ["drv"], name="drv_" + mode, **kw)
        except vlib.Broken as e:
            if "external" in mode:
                ctx.note("link mode %s not built (no C toolchain?): %s" % (mode, str(e)[-200:]))
                continue
            raise
        runs.append((mode, binary, {}))
        if mode in ("symtab", "external"):
            runs.append((mode, binary, {"VERIF_ORDER": "varfirst"}))   # same binary, the first lookup of the process is a variable
    for mode, binary, extra in runs:
        out = ctx.path("sym_%s.ndjson" % mode)
        rc, o = ctx.run_bin(binary, "^TestVerifSymLookup$", env=dict({"VERIF_OUT": out, "VERIF_MODE": mode, "VERIF_QUIET": "1"}, **extra), timeout=900)
        if extra:
            mode = mode + "/varfirst"
        if rc != 0 or not os.path.exists(out):
            ctx.violation("symbol lookup crashed in link mode %s: %s" % (mode, o[-800:]), {"family": "sym", "kind": "crash", "mode": mode, "tail": o[-2000:]})
            continue
        lines = open(out).read().splitlines()
        if not lines:
            raise vlib.Broken("no lookup records in mode " + mode)
        open(os.path.join(ctx.specdir(), "trace.ndjson"), "w").write("\n".join(lines) + "\n")
        t = ctx.tlc("Trace_Sym", "Trace_Sym.cfg", workers=1, timeout=900, tag="judge %d lookups, mode %s" % (len(lines), mode), jvm="-Xss64m")
        summ = [x for x in ctx.behaviours(t) if isinstance(x, dict) and x.get("summary")]
        if not summ:
            raise vlib.Broken("no summary from Trace_Sym: " + t["out"][-800:])
        for what, idx in summ[0]["bad"]:
            e = json.loads(lines[idx - 1])
            ctx.violation("link mode %s: lookup of %s %s name %r -> found=%s delta=%d: %s" % (mode, e["nc"], e["kind"], e["name"], e["found"], e["delta"], what),
                          {"family": "sym", "kind": what, "mode": mode, "symkind": e["kind"], "nc": e["nc"], "name": e["name"], "found": e["found"], "delta": e["delta"]})
        recs = [json.loads(l) for l in lines]
        ctx.cov["traces_validated_against_impl"] += len(lines)
        ctx.count(len(lines))
        ctx.cov["distinct_nontrivial"] += summ[0]["nok"]
        ctx.sample(recs[len(recs) // 2])
        ctx.note("mode %s: %d lookups (%d present functions found exactly, %d variables found exactly, %d errors), all as required: %s" % (
            mode, len(recs), sum(1 for r in recs if r["kind"] == "func" and r["found"] and r["delta"] == 0),
            sum(1 for r in recs if r["kind"] == "var" and r["found"] and r["delta"] == 0), sum(1 for r in recs if not r["found"]),
            summ[0]["nok"] == len(recs)))
    # through the public API: the same short name in three packages (function and struct method), looked up with and without Pkg() in
    # every order on one builder (Pkg.tla): a lookup of p.n must never resolve to q.n
    from lib.replay import replay_family
    g = ctx.tlc("Pkg", "Gen_Pkg.cfg", workers=1, timeout=600, constants={"MaxOps": 4 if q else 5}, tag="same short name in three packages: all histories")
    replay_family(ctx, "pkg", ctx.behaviours(g))
    ctx.cov["rule"] = ("one lookup per function of the binary's pclntab whose entry the runtime confirms (FuncForPC), near-miss and absent "
                       "names (suffix, truncation, case flip, generic brackets, prefix), every unexported variable of the zoo and near "
                       "misses; the driver binary is built and run in each link mode; TLC judges each record against the mode table")
    ctx.assumptions += ["truth addresses come from the Go runtime (FuncForPC, &v); TLC judges, it does not derive them"]
