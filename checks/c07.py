"""C07 — interface-variable mocks. Spec: Iface.tla (mechanism incl. heap reachability + requirement)."""
from lib import vlib
from lib.replay import replay_family

ENV = {"GODEBUG": "clobberfree=1"}   # a freed closure / MakeFunc value is overwritten at once: dangling stubs fail deterministically


def run(ctx):
    q = ctx.quick()
    r = ctx.tlc("MC_Iface", "MC_Iface.cfg", workers=16, timeout=1500, constants={"MaxOps": 4 if q else 5},
                tag="exhaustive: 2 variables of one type, 3 methods, 1 builder")
    ctx.note("MC_Iface: %d distinct states; CallsConform VarsConform NoDangling hold" % r["distinct"])
    rh = ctx.tlc("MC_Iface", "MC_Iface.cfg", workers=16, timeout=1500, constants={"MaxOps": 4 if q else 5, "Ops": "<- HeldOps"},
                 tag="exhaustive with kept handles (Interface / Method values used again, also after Reset)")
    ctx.note("MC_Iface with kept handles: %d distinct states" % rh["distinct"])
    g = ctx.tlc("MC_Iface", "Gen_Iface.cfg", workers=1, timeout=1500, constants={"MaxOps": 3 if q else 4},
                tag="all histories to depth %d" % (3 if q else 4))
    behs = ctx.behaviours(g)
    gh = ctx.tlc("MC_Iface", "Gen_Iface.cfg", workers=1, timeout=1500, constants={"MaxOps": 5, "Ops": "<- HeldOps", "V": '{"i1"}', "M": "<- M1h", "Kinds": '{"stub"}' if q else '{"stub", "apply"}', "Args": "{7}"},
                 tag="all histories with kept handles to depth 5 (one variable, two of its methods)")
    behs += ctx.behaviours(gh)
    # kept handles re-used after Reset, then the builder dropped and collections: the re-activated context must keep the
    # new replacement alive (one method, histories that contain Reset, Drop and GC and end in a call)
    gk = ctx.tlc("MC_Iface", "Gen_Iface.cfg", workers=1, timeout=1500, constants={"MaxOps": 6, "Ops": "<- HeldGcOps", "V": '{"i1"}', "M": "<- M1a", "Kinds": '{"apply", "stub"}', "Args": "{7}"},
                 tag="kept handles x Reset x Drop x GC, one method")
    kb = [b for b in ctx.behaviours(gk) if b[-1]["op"] == "Call" and {"Reset", "Drop", "GC"} <= {s["op"] for s in b} and any(s.get("via") in ("heldI", "heldM") for s in b)]
    ctx.note("kept handle / Reset / Drop / GC histories: %d" % len(kb))
    behs += kb
    gl = ctx.tlc("MC_Iface", "Gen_Iface.cfg", workers=1, timeout=1500, constants={"MaxOps": 3 if q else 4, "V": '{"l1", "l2"}', "M": "<- ML", "Kinds": '{"stub"}', "Args": "{7}"},
                 tag="all histories over two same-named function-local interface types")
    behs += ctx.behaviours(gl)
    # TWO stubbed methods of one variable, the builder dropped, collections, then calls of EITHER method (every replacement of a variable
    # that is still held must stay alive, not only the one installed last)
    gd = ctx.tlc("MC_Iface", "Gen_Iface.cfg", workers=1, timeout=1500, constants={"MaxOps": 5, "V": '{"i1"}', "M": "<- M1h", "Kinds": '{"stub", "when"}' if q else '{"stub", "when", "apply"}', "Args": "{7}", "Ops": '{"Mock", "Drop", "GC", "Call"}'},
                 tag="two methods of one variable, Drop, GC, Call: all histories")
    db = [b for b in ctx.behaviours(gd) if b[-1]["op"] == "Call" and {"Drop", "GC"} <= {x["op"] for x in b} and sum(1 for x in b if x["op"] == "Mock") >= 2]
    ctx.note("two-method Drop / GC histories: %d" % len(db))
    behs += db
    # sequenced stubs on interface methods (As(f).Returns(r1, r2): the first call r1, every later one r2 - C05 for interface mocks)
    gs = ctx.tlc("MC_Iface", "Gen_Iface.cfg", workers=1, timeout=1500, constants={"MaxOps": 4 if q else 5, "V": '{"i1"}', "M": "<- M1a", "Kinds": '{"seq"}', "Args": "{7}"},
                 tag="all histories with sequenced stubs, one variable")
    behs += [b for b in ctx.behaviours(gs) if sum(1 for x in b if x["op"] == "Call") >= 2]
    s = ctx.tlc("MC_Iface", "Sim_Iface.cfg", workers=1, timeout=1500, simulate="num=%d" % (400 if q else 6000), depth=14,
                tag="random histories: 3 variables (2 types), 2 builders, Drop/GC at TLC-chosen points")
    behs += ctx.behaviours(s)
    if not behs:
        raise vlib.Broken("no behaviours")
    replay_family(ctx, "iface", behs, env=ENV, batch=4000)
    # with executable mappings REFUSED for the whole process (seccomp): every stub comes from goom's built-in reserve (C20's fallback,
    # end to end): the one-variable histories again, and the scale histories below
    small = [b for b in behs if len(b) <= 6][:300 if q else 1200]
    s0 = replay_family(ctx, "iface", small, env=dict(ENV, VERIF_NOMMAP="1"), batch=20)   # (the reserve holds about 260 stubs and nothing is given back)
    # different variables mocked AT THE SAME TIME by builders of their own (twelve goroutines from a common start), checked sequentially
    from lib.replay import drv_binary
    rc, o = ctx.run_bin(drv_binary(ctx), "^TestVerifIfaceParallel$", env=dict(ENV, VERIF_OUT="1", VERIF_ROUNDS="12" if q else "120", VERIF_QUIET="1"), timeout=900)
    if rc != 0:
        ctx.violation("variables mocked at the same time by builders of their own are not independent: " + o[-900:], {"family": "iface-parallel", "kind": "mismatch", "tail": o[-2500:]})
    ctx.count(1)
    # the same at scale (Scale.tla, instance ScaleI): 12 variables x 12 methods mocked in groups (more than a page of stub space)
    from checks import life
    life.scale(ctx, 16, 400, iface=True)
    life.scale(ctx, 48, 160, iface=True, env={"VERIF_NOMMAP": "1"})
    ctx.cov["exhaustive"] = True
    ctx.cov["rule"] = ("every history of Mock(apply|stub)/Reset/Drop/GC/Call to the stated depth over 2 variables of a 3-method "
                       "interface (one initially nil, one holding a real implementation; the middle method in itab order unexported) "
                       "plus seeded random length-9 histories over 3 variables of 2 interface types and 2 builders; replayed with "
                       "GODEBUG=clobberfree=1, Drop = all references to the builder dropped, GC = forced collections + heap churn; "
                       "after every step the two words of every variable are compared with their pre-mock words")
    ctx.assumptions += ["a second As().Return on an already stubbed method is unconstrained (extends the stub, cf. C12)",
                        "type switches / assertions on the fabricated interface value are not covered"]
