"""C20 — executable stub space. Specs: StubAlloc.tla, Trace_Stub.tla. In-package driver
harness/stubdrv (internal/bytecode/stub)."""
import json, os, shutil
from lib import vlib


def schedules(ctx, binary, consts, tag):
    g = ctx.tlc("MC_StubAlloc", "Gen_StubAlloc.cfg", workers=1, timeout=900, constants=consts, tag="all interleavings " + tag)
    scheds = ctx.behaviours(g)
    if not scheds:
        raise vlib.Broken("no schedules")
    fin, fout = ctx.path("sa.ndjson"), ctx.path("sa_out.ndjson")
    vlib.write_ndjson(fin, scheds)
    rc, out = ctx.run_bin(binary, "^TestVerifStubSchedules$", env={"VERIF_IN": fin, "VERIF_OUT": fout, "VERIF_R": str(consts["R"]), "VERIF_K": str(consts["K"])}, timeout=900)
    res = vlib.read_ndjson(fout) if os.path.exists(fout) else []
    summ = [x for x in res if x.get("summary")]
    if not summ:
        if "gate:" in out:
            raise vlib.Broken("gated replay got stuck: " + out[-800:])
        ctx.violation("driver crashed replaying TLC's interleavings of acquireFromHolder: " + out[-600:],
                      {"family": "stub-sched", "kind": "crash", "tail": out[-1500:]})
        return
    ctx.cov["traces_validated_against_impl"] += summ[0]["schedules"]
    ctx.count(summ[0]["schedules"])
    ctx.cov["distinct_nontrivial"] += len(scheds)
    ctx.sample({"schedule": scheds[len(scheds) // 2]})
    ctx.note("replayed %d interleavings (%s) through the holder hooks: %d mismatches" % (summ[0]["schedules"], tag, summ[0]["mismatches"]))
    for x in res:
        if "mismatch" in x:
            ctx.violation("interleaving %s: %s" % (json.dumps(scheds[x["sched"]]), x["mismatch"]),
                          {"family": "stub-sched", "kind": "mismatch", "schedule": scheds[x["sched"]], "what": x["mismatch"]})
            break


def free(ctx, binary, g, k, nommap=False, later=False):
    fout = ctx.path("stub_trace.ndjson")
    if os.path.exists(fout):
        os.remove(fout)
    env = {"VERIF_OUT": fout, "VERIF_G": str(g), "VERIF_K": str(k)}
    if nommap:
        env["VERIF_NOMMAP"] = "later" if later else "1"
    rc, out = ctx.run_bin(binary, "^TestVerifStubFree$", env=env, timeout=600, args=["-test.v"])
    if nommap and rc == 0 and "--- SKIP" in out:
        ctx.note("executable mappings cannot be refused in this environment (no seccomp): public Acquire on the fallback path not exercised: " + out[-200:])
        ctx.assumptions.append("the public Acquire was not driven onto the fallback path (seccomp filter unavailable)")
        return
    if rc != 0 or not os.path.exists(fout) or os.path.getsize(fout) == 0:
        ctx.violation("requesting / writing / executing stub space crashed: " + out[-800:], {"family": "stub-free", "kind": "crash", "tail": out[-2000:]})
        return
    evs = vlib.read_ndjson(fout)
    shutil.copy(fout, os.path.join(ctx.specdir(), "trace.ndjson"))
    r = ctx.tlc("Trace_Stub", "Trace_Stub.cfg", workers=1, timeout=600, expect_violation=True, tag="trace validation, %d regions" % (len(evs) - 1))
    ctx.cov["traces_validated_against_impl"] += 1
    ctx.count(len(evs))
    ctx.sample({"trace_head": evs[:6]})
    if r["rc"] != 0:
        which = [ln for ln in r["out"].splitlines() if "Invariant" in ln or "Postcondition" in ln]
        ctx.violation("regions recorded from the real allocator violate StubAlloc's invariants: %s" % which[:2],
                      {"family": "stub-free", "kind": "trace-rejected", "which": which[:2], "trace": evs[:300]})
        return
    if nommap:
        viah = len([e for e in evs if e["ev"] == "region" and not e["err"] and e["src"] == "acquire-holder"])
        if viah == 0 or (not later and any(e["ev"] == "region" and not e["err"] and e["src"] == "acquire" for e in evs)):
            raise vlib.Broken("executable mappings were refused but public Acquire did not (only) use the reserve: %d regions from the reserve" % viah)
        ctx.note("executable mappings refused (seccomp): %d regions granted by the public Acquire from the built-in reserve, written, executed" % viah)
    ngranted = len([e for e in evs if e["ev"] == "region" and not e["err"]])
    nerr = len([e for e in evs if e["ev"] == "region" and e["err"]])
    if nerr == 0:
        raise vlib.Broken("the driver never exhausted the reserve: exhaustion path not exercised")
    # binding self-test: overlap two regions -> must be rejected
    bad = [dict(e) for e in evs]
    regs = [e for e in bad if e["ev"] == "region" and not e["err"] and e["src"] == "holder"]
    if len(regs) < 2:      # (the reserve was used up by the public Acquire already)
        regs = [e for e in bad if e["ev"] == "region" and not e["err"] and e["src"] == "acquire-holder"]
    if len(regs) < 2:
        raise vlib.Broken("fewer than two regions from the reserve: nothing to overlap in the self-test")
    regs[1]["lo"] = regs[0]["lo"]
    p2 = os.path.join(ctx.specdir(), "trace.ndjson")
    vlib.write_ndjson(p2, bad)
    r2 = ctx.tlc("Trace_Stub", "Trace_Stub.cfg", workers=1, timeout=600, expect_violation=True, tag="self-test: overlapping copy must be rejected")
    if r2["rc"] == 0:
        raise vlib.Broken("Trace_Stub accepted overlapping regions: the trace spec does not bind")
    ctx.note("Trace_Stub: %d granted regions (mmap + holder) and %d exhaustion errors accepted; overlapping copy rejected" % (ngranted, nerr))


def inductive(ctx):
    """Unbounded in the number of requests and the reserve size: IndInv of spec/apalache/StubAllocInd.tla is inductive
    (Apalache), holds initially and implies the four invariants; the pre-F11 grant rule must break the induction."""
    files = ["StubAlloc.tla", "apalache/StubAllocInd.tla"]
    common = ["--cinit=CInit"]
    for args, what in ((["--init=Init", "--inv=IndInv", "--length=0"], "base case Init => IndInv"),
                       (["--init=IndInit", "--inv=IndInv", "--length=1"], "induction step IndInv /\\ Next => IndInv'"),
                       (["--init=IndInit", "--inv=Safe", "--length=0"], "IndInv => Disjoint /\\ InReserve /\\ Sized /\\ NoOverrun")):
        rc, out = ctx.apalache(files, "StubAllocInd.tla", common + args, tag=what)
        if rc != 0:
            raise vlib.Broken("Apalache refutes '%s' on the specification itself (the spec or its inductive invariant is wrong): %s" % (what, out[-1500:]))
    # self-test: the grant rule before the fix of F11 ([pl, pl+len) instead of [n-len, n)) is not inductive
    import os
    d = os.path.join(ctx.scratch, "apa_mut")
    os.makedirs(os.path.join(d, "apalache"), exist_ok=True)
    src = open(os.path.join(vlib.VERIF, "spec", "StubAlloc.tla")).read()
    mut = src.replace("lo |-> n - len, hi |-> n, len", "lo |-> pl[p], hi |-> pl[p] + len, len")
    if mut == src:
        raise vlib.Broken("self-test mutation of StubAlloc.tla did not apply")
    spec = os.path.join(vlib.VERIF, "spec")
    bak = None
    try:
        # ctx.apalache copies from spec/: use a private copy instead
        open(os.path.join(d, "StubAlloc.tla"), "w").write(mut)
        import shutil
        shutil.copy(os.path.join(spec, "apalache", "StubAllocInd.tla"), d)
        rc, out = vlib.sh(["apalache-mc", "check", "--cinit=CInit", "--init=IndInit", "--inv=IndInv", "--length=1", "StubAllocInd.tla"], cwd=d, timeout=900)
    except Exception as e:
        raise vlib.Broken("apalache self-test failed to run: %s" % e)
    if rc != 12:
        raise vlib.Broken("Apalache accepts the pre-F11 grant rule as inductive (rc=%d): the inductive check is vacuous" % rc)
    ctx.note("Apalache: IndInv is inductive for any number of requests and any reserve size (<= 3 processes, sizes 1..8); "
             "it implies Disjoint, InReserve, Sized, NoOverrun; the pre-F11 grant rule breaks the induction")


def run(ctx):
    q = ctx.quick()
    r = ctx.tlc("MC_StubAlloc", "MC_StubAlloc.cfg", workers=16, timeout=900, constants=None if q else {"P": "{1, 2, 3}"},
                tag="exhaustive 2 procs x 2 requests x sizes 1..3, reserve 6, mmap may succeed or fail")
    ctx.note("StubAlloc: %d distinct states; Disjoint InReserve Sized NoOverrun hold" % r["distinct"])
    inductive(ctx)
    binary = ctx.build_test("internal/bytecode/stub", ["drv", "stubdrv"], name="stubdrv")
    schedules(ctx, binary, {"P": "{1, 2}", "Sizes": "{1, 3}", "K": 2, "R": 6}, "2 procs x 2 requests, sizes {1,3}, reserve 6")
    if not q:
        schedules(ctx, binary, {"P": "{1, 2}", "Sizes": "{1, 2, 3}", "K": 2, "R": 5}, "2 procs x 2 requests, sizes {1,2,3}, reserve 5")
        schedules(ctx, binary, {"P": "{1, 2, 3}", "Sizes": "{2}", "K": 1, "R": 5}, "3 procs x 1 request, size 2, reserve 5")
    free(ctx, binary, 8, 40 if q else 200)
    # the same with executable mappings REFUSED for the whole process: the public Acquire itself must fall back to the reserve
    free(ctx, binary, 4, 8 if q else 20, nommap=True)
    # ... and refused only AFTER the first hundred requests were served from executable mappings
    free(ctx, binary, 4, 40 if q else 100, nommap=True, later=True)
    ctx.cov["exhaustive"] = True
    ctx.cov["rule"] = ("every interleaving of Load/Finish of the bounded fallback model replayed on the real acquireFromHolder "
                       "through the holder.loaded hook (reserve shrunk to R*48 bytes so exhaustion is reached); free-running "
                       "goroutines request through public Acquire (mmap path) and the fallback until exhaustion, every region is "
                       "written via stub.Write, executed and checked in /proc/self/maps; TLC evaluates StubAlloc's invariants on "
                       "the recorded regions")
