"""Shared driver for the lifecycle family (spec/Goom.tla): exhaustive TLC check, behaviour
generation (all histories to depth D + seeded simulations) and replay on the real library."""
from lib import vlib
from lib.replay import replay_family

F5_SIG = "cbo-twice"


def classify(ro):
    # known finding F5 (C03): the origin placeholder re-enters the mock when the stack must grow
    # (also while a preemption request is pending: the runtime then makes every stack check fail once)
    if ro.get("got") == "cbo-twice" or (ro.get("op") == "CallPh" and ro.get("want") == "orig" and ro.get("got") == "cbo"):
        ro["finding"] = "F5"


def mc(ctx, consts, invariants=None, tag="exhaustive"):
    r = ctx.tlc("MC_Goom", "MC_Goom.cfg", workers=16, timeout=1500, constants=consts, tag=tag)
    ctx.note("MC_Goom %s: %d generated / %d distinct states; invariants CallsConform ImageConforms CapturedPristine "
             "GuardsPristine CursorsInRange and action properties ResetRestores OthersUntouched hold" % (
                 consts, r["generated"], r["distinct"]))
    return r


def gen(ctx, consts, depth, tag):
    c = dict(consts)
    c["MaxOps"] = depth
    g = ctx.tlc("MC_Goom", "Gen_Goom.cfg", workers=1, timeout=1500, constants=c, tag=tag)
    return ctx.behaviours(g)


def sim(ctx, consts, num, length, tag):
    c = dict(consts)
    c["MaxOps"] = length
    g = ctx.tlc("MC_Goom", "Sim_Goom.cfg", workers=1, timeout=1500, constants=c, simulate="num=%d" % num,
                depth=length + 3, tag=tag)
    return ctx.behaviours(g)


def replay(ctx, fam, behs, env=None):
    if not behs:
        raise vlib.Broken("no behaviours generated")
    return replay_family(ctx, fam, behs, env=env, classify=classify)
