"""Shared driver for the lifecycle family (spec/Goom.tla): exhaustive TLC check, behaviour
generation (all histories to depth D + seeded simulations) and replay on the real library."""
from lib import vlib
from lib.replay import replay_family

F5_SIG = "cbo-twice"


def classify_fm(ro):
    # known finding F31: Func(x.M) - a method value - mocks the method by name but installs the receiver-less callback as it is: the
    # callback receives the receiver where its first parameter should be (results computed from the argument are garbage)
    if ro.get("world") == "life/fmvalue" and ro.get("op") == "Call" and str(ro.get("want", "")).startswith("cb:") and str(ro.get("got", "")).startswith("?"):
        ro["finding"] = "F31"
    else:
        classify(ro)


def classify(ro):
    # known finding F5 (C03): the origin placeholder re-enters the mock when the stack must grow
    # (also while a preemption request is pending: the runtime then makes every stack check fail once)
    if ro.get("got") == "cbo-twice" or (ro.get("op") == "CallPh" and ro.get("want") == "orig" and ro.get("got") == "cbo"):
        ro["finding"] = "F5"


def mc(ctx, consts, invariants=None, tag="exhaustive"):
    r = ctx.tlc("MC_Goom", "MC_Goom.cfg", workers=16, timeout=1500, constants=consts, tag=tag)
    ctx.note("MC_Goom %s: %d generated / %d distinct states; invariants CallsConform ImageConforms CapturedPristine "
             "GuardsPristine CursorsInRange and action properties ResetRestores OthersUntouched hold" % (
                 consts, r["generated"], r["distinct"]))
    return r


def gen(ctx, consts, depth, tag):
    c = dict(consts)
    c["MaxOps"] = depth
    g = ctx.tlc("MC_Goom", "Gen_Goom.cfg", workers=1, timeout=1500, constants=c, tag=tag)
    return ctx.behaviours(g)


def sim(ctx, consts, num, length, tag):
    c = dict(consts)
    c["MaxOps"] = length
    g = ctx.tlc("MC_Goom", "Sim_Goom.cfg", workers=1, timeout=1500, constants=c, simulate="num=%d" % num,
                depth=length + 3, tag=tag)
    return ctx.behaviours(g)


def replay(ctx, fam, behs, env=None):
    if not behs:
        raise vlib.Broken("no behaviours generated")
    return replay_family(ctx, fam, behs, env=env, classify=classify)


def scale(ctx, nquick, nthorough, ops=None, iface=False, family=None, env=None):
    """Scale.tla: the lifecycle requirements on many objects at once - 64 functions in groups, a conditional stub with up to 120
    conditions, a sequence of up to 64 results; instance ScaleI: 12 interface variables x 12 methods. Model-checked on a small
    instance, random histories (8 simulation workers) replayed on the real library."""
    from lib.replay import replay_family
    q = ctx.quick()
    n = -(-(nquick if q else nthorough) // 8)
    if iface:
        ctx.tlc("MC_Scale", "MC_ScaleI.cfg", workers=8, timeout=900, constants={"MaxOps": 6 if q else 7}, tag="ScaleI: small instance (2 objects x 2 targets), ResetExact / OwnedIffMocked")
        bs = ctx.behaviours(ctx.tlc("MC_Scale", "Sim_ScaleI.cfg", workers=8, timeout=1500, simulate="num=%d" % n, depth=12,
                                    tag="ScaleI: random histories over 12 interface variables x 12 methods in groups"))
        fam = "scale-iface"
    else:
        ctx.tlc("MC_Scale", "MC_Scale.cfg", workers=8, timeout=900, constants={"MaxOps": 5 if q else 6}, tag="Scale: small instance, ResetExact / OwnedIffMocked")
        bs = ctx.behaviours(ctx.tlc("MC_Scale", "Sim_Scale.cfg", workers=8, timeout=1500, simulate="num=%d" % n, depth=14,
                                    tag="Scale: random histories over 64 targets in groups, stubs of up to 120 conditions / 64 results"))
        fam = "scale"
    if ops:
        bs = [b for b in bs if any(s["op"] in ops for s in b)]
    batch = None
    if iface:
        # goom maps one page per interface stub and never unmaps it: a behaviour over 144 targets can leave more than a thousand
        # mappings behind, and a process may hold about 65 000 (vm.max_map_count): twenty behaviours per process
        batch = 20
    if env and env.get("VERIF_NOMMAP") == "1":
        # stubs are never given back and the built-in reserve holds about 260 of them: histories that need fewer than 230, one per process
        bs = [b for b in bs if sum(sum(1 for x in s.get("is", []) if x) for s in b if s["op"].startswith("Mock")) < 230]
        batch = 1
    if not bs:
        raise vlib.Broken("no Scale behaviours")
    replay_family(ctx, family or fam, bs, classify=classify, env=env, batch=batch)
