"""C06 — method mocks replace exactly the named method for every instance. Spec: Method.tla (target -> body
resolution incl. generic GC shapes; mechanism entry[body] vs requirement per target)."""
import re
from lib import vlib
from lib.replay import replay_family

GENERIC_APPLY = re.compile(r"G(int|str|pA|pV)\.M on instance \d: required repl:\d+, real (\?-?\d+|panic:.*)")


def classify(ro):
    # known finding F21: Apply on a method of an instantiated generic type
    if ro.get("key") == "!call" and GENERIC_APPLY.match(ro.get("got", "")):
        beh = ro.get("behaviour") or []
        applied = {s["t"] for s in beh if s.get("op") == "Mock" and s.get("kind") == "apply" and s["t"].startswith("G")}
        if applied:
            ro["finding"] = "F21"


def run(ctx):
    q = ctx.quick()
    r = ctx.tlc("MC_Method", "MC_Method.cfg", workers=16, timeout=900, constants={"MaxOps": 3 if q else 4},
                tag="11 targets (prefix names, value/pointer receivers, unexported type, embedded, 4 generic instantiations), 2 builders")
    ctx.note("MC_Method: %d distinct states; Conforms, OnlyNamed hold" % r["distinct"])
    g = ctx.tlc("MC_Method", "Gen_Method.cfg", workers=1, timeout=900, constants={"MaxOps": 3 if q else 4}, tag="all histories")
    behs = [b for b in ctx.behaviours(g) if any(s["op"] == "CallAll" for s in b)]
    s = ctx.tlc("MC_Method", "Sim_Method.cfg", workers=1, timeout=900, simulate="num=%d" % (200 if q else 3000), depth=12, tag="random histories, 2 builders")
    behs += [b for b in ctx.behaviours(s) if any(x["op"] == "CallAll" for x in b)]
    if not behs:
        raise vlib.Broken("no behaviours")
    replay_family(ctx, "method", behs, classify=classify)
    # the same at scale (Scale.tla bound to 8 struct types x 8 methods: groups, one shared builder / a builder per method)
    from checks import life
    life.scale(ctx, 60, 1500, family="scale-method")
    # a type is addressed by package AND name: three packages define a same-named unexported struct with a same-named method (Pkg.tla)
    g = ctx.tlc("Pkg", "Gen_Pkg.cfg", workers=1, timeout=600, constants={"MaxOps": 4 if q else 5, "K": '{"method"}'}, tag="same-named struct types in 3 packages: all histories")
    replay_family(ctx, "pkg", ctx.behaviours(g))
    ctx.cov["exhaustive"] = True
    ctx.cov["rule"] = ("every history of Mock(apply|return)/Reset/CallAll to depth 3/4 over 11 (type, method) targets and seeded random "
                       "length-9 histories with 2 builders; CallAll calls every method of every type (and the method promoted through an "
                       "embedded struct) on 3 instances with distinct field values; callbacks compare their receiver with the instance "
                       "(pointer identity / field equality)")
    ctx.assumptions += ["instantiations of the same GC shape as a mocked one are unconstrained (they share a body); different shapes must be unaffected"]
