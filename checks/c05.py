"""C05 — result sequences: in order, sticky tail, independent cursors; concurrent callers.
Specs: Goom.tla (sequential, cursors per stub), Seq.tla (the three atomic steps of Result),
Trace_Seq.tla (validation of free-running traces)."""
import json, os, shutil
from lib import vlib
from lib.replay import drv_binary
from checks import life


def schedules(ctx, binary, g, n, k, tag, simulate=0):
    if simulate:
        # too many interleavings to enumerate: seeded random ones (the invariants are checked on every state visited)
        gres = ctx.tlc("Seq", "Sim_Seq.cfg", workers=1, timeout=900, constants={"G": g, "N": n, "K": k}, simulate="num=%d" % simulate, depth=200,
                       tag="random interleavings " + tag)
    else:
        r = ctx.tlc("Seq", "MC_Seq.cfg", workers=8, timeout=900, constants={"G": g, "N": n, "K": k}, tag="exhaustive " + tag)
        ctx.note("Seq %s: %d states, InRange PerCallerMonotone RealTimeSticky RealTimeMonotone SequentialExact CursorMonotone hold" % (tag, r["distinct"]))
        gres = ctx.tlc("Seq", "Gen_Seq.cfg", workers=1, timeout=900, constants={"G": g, "N": n, "K": k}, tag="all interleavings " + tag)
    scheds = ctx.behaviours(gres)
    if not scheds:
        raise vlib.Broken("no schedules")
    fin, fout = ctx.path("sched.ndjson"), ctx.path("sched_out.ndjson")
    vlib.write_ndjson(fin, scheds)
    rc, out = ctx.run_bin(binary, "^TestVerifSeqSchedules$", env={"VERIF_IN": fin, "VERIF_OUT": fout, "VERIF_N": str(n), "VERIF_K": str(k)},
                          timeout=600)
    res = vlib.read_ndjson(fout) if os.path.exists(fout) else []
    summ = [x for x in res if x.get("summary")]
    if not summ:
        if "gate:" in out:
            raise vlib.Broken("gated replay got stuck: " + out[-800:])
        ctx.violation("driver crashed replaying TLC's interleavings of Result(): " + out[-600:],
                      {"family": "seq-sched", "kind": "crash", "tail": out[-1500:]})
        return
    ctx.cov["traces_validated_against_impl"] += summ[0]["schedules"]
    ctx.count(summ[0]["schedules"])
    ctx.cov["distinct_nontrivial"] += len(scheds)
    ctx.sample({"schedule": scheds[len(scheds) // 2]})
    ctx.note("replayed %d interleavings (%s) through the matcher hooks: %d mismatches" % (summ[0]["schedules"], tag, summ[0]["mismatches"]))
    for x in res:
        if "mismatch" in x:
            ctx.violation("interleaving %s: %s" % (json.dumps(scheds[x["sched"]]), x["mismatch"]),
                          {"family": "seq-sched", "kind": "mismatch", "schedule": scheds[x["sched"]], "what": x["mismatch"],
                           "n": n, "k": k})
            break


def validate_trace(ctx, path, g, n, expect_accept=True, tag=""):
    d = ctx.specdir()
    shutil.copy(path, os.path.join(d, "trace.ndjson"))
    r = ctx.tlc("Trace_Seq", "Trace_Seq.cfg", workers=1, timeout=900, constants={"G": g, "N": n}, tag="trace validation " + tag,
                expect_violation=True, jvm="-Dtlc2.tool.queue.IStateQueue=StateDeque")
    return r["rc"] == 0


def stress(ctx, binary, g, n, k, rounds, race_binary=None):
    fout = ctx.path("seq_trace.ndjson")
    rc, out = ctx.run_bin(race_binary or binary, "^TestVerifSeqStress$",
                          env={"VERIF_OUT": fout, "VERIF_N": str(n), "VERIF_G": str(g), "VERIF_K": str(k), "VERIF_ROUNDS": str(rounds)},
                          timeout=600)
    if "DATA RACE" in out:
        ctx.violation("data race reported by the race detector among concurrent callers of one stub: " + out[:1500],
                      {"family": "seq-stress", "kind": "race", "tail": out[:3000]})
        return
    if rc != 0 or not os.path.exists(fout):
        ctx.violation("concurrent callers of one stub crashed: " + out[-800:], {"family": "seq-stress", "kind": "crash", "tail": out[-2000:]})
        return
    evs = vlib.read_ndjson(fout)
    gset = "{" + ", ".join(str(i) for i in range(g)) + "}"
    ok = validate_trace(ctx, fout, gset, n, tag="%d callers x %d calls x %d rounds, n=%d" % (g, k, rounds, n))
    ctx.cov["traces_validated_against_impl"] += rounds
    ctx.count(rounds)
    ctx.sample({"trace_head": evs[:12]})
    if not ok:
        keep = os.path.join(vlib.VERIF, "replays", ctx.pid)
        os.makedirs(keep, exist_ok=True)
        shutil.copy(fout, os.path.join(keep, "rejected_trace.ndjson"))
        ctx.violation("a recorded trace of racing callers is not a behaviour of spec Seq (no interleaving of Load/Add explains the returned elements)",
                      {"family": "seq-stress", "kind": "trace-rejected", "trace": evs[:400]})
        return
    # binding self-test: an unexplainable value must be rejected
    bad = [dict(e) for e in evs]
    for e in bad:
        if e["ev"] == "end" and e["v"] == 0:
            e["v"] = n - 1  # first element replaced by the last: nobody can have seen the tail first
            break
    p2 = ctx.path("seq_trace_bad.ndjson")
    vlib.write_ndjson(p2, bad)
    if validate_trace(ctx, p2, gset, n, tag="self-test: corrupted value must be rejected"):
        raise vlib.Broken("Trace_Seq accepted a corrupted trace: the trace spec does not bind")
    ctx.note("Trace_Seq accepted the recorded trace (%d events) and rejected the corrupted copy" % len(evs))


def run(ctx):
    q = ctx.quick()
    # sequential: cursors per stub (default + conditions), Goom.tla
    base = {"B": '{"b1"}', "T": '{"f"}', "CB": '{"c1"}', "RS": "<- RS_1234", "A": "{0, 1}", "Ops": "<- SeqOps"}
    life.mc(ctx, dict(base, MaxOps=5 if q else 6), tag="sequential cursors")
    behs = life.gen(ctx, dict(base, RS="<- RS_3", A="{0}"), 3 if q else 4, "all histories of Return/Returns/When/Call/Reset")
    behs += life.sim(ctx, base, 200 if q else 3000, 14, "random call strings over default + 2 conditions")
    # sequences extended between calls (a further Returns on the same configuration), also after calls beyond the old end
    behs += life.gen(ctx, dict(base, RS="<- RS_EXT", A="{0}", Ops="<- ExtOps"), 7 if q else 8, "all histories of Returns/Call: extension at every point")
    life.replay(ctx, "life-func" if q else "life", behs)
    # concurrent: every interleaving of the atomic steps, replayed through gates
    binary = drv_binary(ctx)
    schedules(ctx, binary, "{1, 2}", 3, 2, "2 callers x 2 calls, n=3")
    # four and five callers (an error that needs several overlapping calls to accumulate), sequences of one and two results
    schedules(ctx, binary, "{1, 2, 3, 4}", 1, 2, "4 callers x 2 calls, n=1", simulate=300 if q else 4000)
    schedules(ctx, binary, "{1, 2, 3, 4, 5}", 2, 3, "5 callers x 3 calls, n=2", simulate=300 if q else 4000)
    if not q:
        schedules(ctx, binary, "{1, 2}", 2, 3, "2 callers x 3 calls, n=2")
        schedules(ctx, binary, "{1, 2, 3}", 3, 1, "3 callers x 1 call, n=3")
        schedules(ctx, binary, "{1, 2, 3}", 1, 1, "3 callers x 1 call, n=1")
        schedules(ctx, binary, "{1, 2, 3}", 2, 2, "3 callers x 2 calls, n=2", simulate=6000)
    race = drv_binary(ctx, race=True)
    stress(ctx, binary, 4, 4, 6 if q else 8, 20 if q else 200, race_binary=race)
    # sequences on INTERFACE methods (Iface.tla kind seq: As(f).Returns(r1, r2)): two methods of one variable with the same signature
    # must keep sequences of their own
    from lib.replay import replay_family
    gi = ctx.tlc("MC_Iface", "Gen_Iface.cfg", workers=1, timeout=1500, constants={"MaxOps": 5 if q else 6, "V": '{"i1"}', "M": "<- M1h", "Kinds": '{"seq"}', "Args": "{7}"},
                 tag="sequenced stubs on two methods of one interface variable: all histories")
    ib = [b for b in ctx.behaviours(gi) if sum(1 for x in b if x["op"] == "Call") >= 2 and sum(1 for x in b if x["op"] == "Mock") >= 2]
    replay_family(ctx, "iface", ib, env={"GODEBUG": "clobberfree=1"}, batch=4000)
    # sequences of INTERFACE-typed results (error values): every configured value must come back as itself, in order (records of
    # the conversion driver, path sequence-*, judged by Trace_ArgConv: kind error, class concrete, required boxed)
    cout = ctx.path("conv_seq.ndjson")
    rc, o = ctx.run_bin(binary, "^TestVerifArgConv$", env={"VERIF_OUT": cout}, timeout=600)
    recs = [l for l in (open(cout).read().splitlines() if os.path.exists(cout) else []) if '"sequence-' in l]
    if rc != 0 or not recs:
        ctx.violation("sequences of interface-typed results: the driver crashed: " + o[-600:], {"family": "conv", "kind": "crash", "tail": o[-1500:]})
    else:
        open(os.path.join(ctx.specdir(), "trace.ndjson"), "w").write("\n".join(recs) + "\n")
        t = ctx.tlc("Trace_ArgConv", "Trace_ArgConv.cfg", workers=1, timeout=600, tag="judge %d interface-result sequences" % len(recs))
        summ = [x for x in ctx.behaviours(t) if isinstance(x, dict) and x.get("summary")]
        if not summ:
            raise vlib.Broken("no summary from Trace_ArgConv: " + t["out"][-800:])
        for what, idx in summ[0]["bad"]:
            e = json.loads(recs[idx - 1])
            ctx.violation("sequence of error results through %s: %s" % (e["path"], e["outcome"]), {"family": "conv", "kind": e["kind"], "class": e["class"], "path": e["path"], "outcome": e["outcome"]})
        ctx.count(len(recs))
    # LONG sequences (Scale.tla: Returns of up to 64 results, calls in bursts of 1 / 3 / 20)
    life.scale(ctx, 60, 1200, ops={"SeqStub"})
    ctx.cov["exhaustive"] = True
    ctx.cov["rule"] = ("sequential: all histories of the sequence alphabet to the stated depth + random call strings; "
                       "concurrent: EVERY interleaving of the Load/Add/RetLast steps of the bounded model replayed "
                       "deterministically on the real code through hooks, and free-running racing callers (race detector on) "
                       "whose start/end traces are validated by TLC against the same spec")
