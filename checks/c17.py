"""C17 — the arm64 decoder: total over the word space; exact on the PC-relative / branch classes.
Spec: A64Format.tla (bit-field model of the classes goom relies on, self-tested against ARM ARM vectors by TLC),
Trace_A64.tla (judge). The totality sweep itself is an exhaustive Go run whose per-chunk summaries TLC checks."""
import glob, json, os, subprocess
from lib import vlib


def reference_overlay(ctx, base):
    """the Go toolchain's own copy of golang.org/x/arch/arm64/arm64asm (GOROOT/src/cmd/vendor), copied into the build as
    zzverif/refa64: the independent reference decoder the property speaks of"""
    roots = [subprocess.run(["go", "env", "GOROOT"], capture_output=True, text=True).stdout.strip()] + sorted(glob.glob("/usr/lib/go-*")) + sorted(glob.glob("/opt/veriftools/go*"))
    for root in roots:
        d = os.path.join(root, "src/cmd/vendor/golang.org/x/arch/arm64/arm64asm")
        srcs = [f for f in sorted(glob.glob(os.path.join(d, "*.go"))) if not f.endswith("_test.go")]
        if srcs:
            files = {"zzverif/refa64/" + os.path.basename(f): open(f).read() for f in srcs}
            return ctx.extra_overlay(base, files), d
    return None, None


def differential(ctx, q):
    ov, src = reference_overlay(ctx, ctx.overlay(["a64", "a64diff"]))
    if ov is None:
        ctx.note("no reference arm64 decoder found under GOROOT/src/cmd/vendor: agreement on the whole word space not checked")
        ctx.assumptions.append("reference decoder sources absent: only the bit-field model judged agreement")
        return
    binary = ctx.build_test("internal/arch/arm64asm", ["a64", "a64diff"], name="a64diff", gcflags="", overlay=ov)
    out = ctx.path("a64diff.ndjson")
    stride = 61 if q else 1
    rc, o = ctx.run_bin(binary, "^TestVerifA64Diff$", env={"VERIF_OUT": out, "VERIF_STRIDE": str(stride), "VERIF_FILLS": "48" if q else "2000"}, timeout=300 if q else 6000)
    if rc != 0 or not os.path.exists(out):
        ctx.violation("the arm64 differential driver crashed: " + o[-800:], {"family": "a64", "kind": "crash", "tail": o[-2000:]})
        return
    lines = open(out).read().splitlines()
    words = nok = nout = 0
    for i in range(0, len(lines), 150000):
        part = lines[i:i + 150000]
        open(os.path.join(ctx.specdir(), "trace.ndjson"), "w").write("\n".join(part) + "\n")
        t = ctx.tlc("Trace_A64", "Trace_A64.cfg", workers=1, timeout=1500, tag="judge %d differential records" % len(part), jvm="-Xss64m")
        summ = [x for x in ctx.behaviours(t) if isinstance(x, dict) and x.get("summary")]
        if not summ:
            raise vlib.Broken("no summary from Trace_A64: " + t["out"][-800:])
        nok += summ[0]["tally"]["ok"]
        nout += summ[0]["tally"]["outside"]
        for what, idx in summ[0]["bad"]:
            e = json.loads(part[idx - 1])
            if e["ev"] == "dchunk":
                ctx.violation("words %#x000000..: %d of %d words disagree with the reference decoder outside the system-instruction space (%d inside): %s" % (
                    e["chunk"], e["otherdiff"], e["words"], e["sysdiff"], what), {"family": "a64", "kind": what, "chunkdiff": e["chunk"]})
            else:
                w = sum(b << (8 * k) for k, b in enumerate(e["b"]))
                ctx.violation("arm64 word %#010x: goom says err=%s op=%s pcrel=%s disp=%d %s, the reference decoder says err=%s op=%s pcrel=%s disp=%d: %s" % (
                    w, e["err"], e["op"], e["has"], e["disp"], e["panic"], e["rerr"], e["rop"], e["rhas"], e["rdisp"], what),
                    {"family": "a64", "kind": what, "word": "%#010x" % w, "decoder": {k: e[k] for k in ("err", "op", "has", "disp")},
                     "reference": {k: e[k] for k in ("rerr", "rop", "rhas", "rdisp")}})
        words += sum(json.loads(x)["words"] for x in part if '"ev":"dchunk"' in x.replace(" ", ""))
    ctx.cov["traces_validated_against_impl"] += len(lines)
    ctx.cov["evaluations"] += words
    ctx.cov["words_compared_with_reference"] = words
    ctx.note("reference decoder %s: %d words compared (stride %d) + format fills; %d recorded records agree, %d disagreements inside the exempt system-instruction space" % (src, words, stride, nok, nout))
    if words < (1 << 32) // stride - 1000:
        raise vlib.Broken("differential sweep incomplete: %d words" % words)


def run(ctx):
    q = ctx.quick()
    ctx.tlc("MC_A64Format", "MC_A64Format.cfg", workers=1, timeout=300, tag="model self-test against hand-computed ARM ARM vectors")
    binary = ctx.build_test("internal/arch/arm64asm", ["a64"], name="a64", gcflags="")
    out = ctx.path("a64.ndjson")
    stride = 61 if q else 1
    rc, o = ctx.run_bin(binary, "^TestVerifA64Sweep$", env={"VERIF_OUT": out, "VERIF_STRIDE": str(stride), "VERIF_RANDOM": "20000" if q else "200000"},
                        timeout=300 if q else 3000)
    if rc != 0 or not os.path.exists(out):
        ctx.violation("the arm64 decoder driver crashed (a fatal error that recover() cannot catch): " + o[-800:], {"family": "a64", "kind": "crash", "tail": o[-2000:]})
        return
    lines = open(out).read().splitlines()
    tally = {"ok": 0, "outside": 0, "chunks": 0, "words": 0}
    for i in range(0, len(lines), 150000):
        part = lines[i:i + 150000]
        open(os.path.join(ctx.specdir(), "trace.ndjson"), "w").write("\n".join(part) + "\n")
        t = ctx.tlc("Trace_A64", "Trace_A64.cfg", workers=1, timeout=1500, tag="judge %d records" % len(part), jvm="-Xss64m")
        summ = [x for x in ctx.behaviours(t) if isinstance(x, dict) and x.get("summary")]
        if not summ:
            raise vlib.Broken("no summary from Trace_A64: " + t["out"][-800:])
        for k in ("ok", "outside", "chunks"):
            tally[k] += summ[0]["tally"][k]
        chunks = [json.loads(x) for x in part if '"ev":"chunk"' in x.replace(" ", "")]
        if len(chunks) != summ[0]["tally"]["chunks"]:
            raise vlib.Broken("Trace_A64 judged %d chunk records, the driver wrote %d" % (summ[0]["tally"]["chunks"], len(chunks)))
        tally["words"] += sum(c["words"] for c in chunks)   # every chunk record was judged by TLC (panics = 0, insts + errs = words)
        for what, idx in summ[0]["bad"]:
            e = json.loads(part[idx - 1])
            if e["ev"] == "chunk":
                ctx.violation("sweep of words %#x000000..: %d panics (first near word %#x00), %d instructions + %d errors of %d words: %s" % (
                    e["chunk"], e["panics"], e["first"], e["insts"], e["errs"], e["words"], what), {"family": "a64", "kind": what, "chunk": e})
            else:
                w = sum(b << (8 * k) for k, b in enumerate(e["b"]))
                ctx.violation("arm64 word %#010x: decoder says err=%s op=%s pcrel=%s disp=%d %s: %s" % (w, e["err"], e["op"], e["has"], e["disp"], e["panic"], what),
                              {"family": "a64", "kind": what, "word": "%#010x" % w, "decoder": {k: e[k] for k in ("err", "op", "has", "disp", "panic")}})
    differential(ctx, q)
    ctx.cov["traces_validated_against_impl"] += len(lines)
    ctx.cov["evaluations"] += tally["words"] + len(lines)
    ctx.cov["distinct_nontrivial"] = tally["ok"]
    ctx.cov["words_swept"] = tally["words"]
    ctx.cov["exhaustive"] = not q
    ctx.sample(json.loads(lines[300]))
    ctx.note("%d words swept for totality (stride %d), %d class records judged ok, %d outside the model" % (tally["words"], stride, tally["ok"], tally["outside"]))
    if tally["words"] < (1 << 32) // stride - 1000:
        raise vlib.Broken("sweep incomplete: %d words" % tally["words"])
    ctx.cov["rule"] = ("totality: Decode + String() on every %s word of the 2^32 space (Go sweep on all cores, one summary per 2^24-word chunk, "
                       "TLC requires panics = 0 and insts + errs = words); exactness: for B/BL, B.cond, CBZ/CBNZ, TBZ/TBNZ, ADR/ADRP, literal loads, "
                       "BR/BLR/RET and the unallocated groups, every immediate with <= 2 bits set or cleared, the boundaries and seeded random "
                       "members, judged by the bit-field model for decodability, opcode and displacement; agreement with the reference decoder "
                       "(decodability, opcode, PC-relative displacement) on the same words plus fills of every format of the decoder's table, every "
                       "recorded disagreement and every chunk summary judged by TLC (exempt: SYS / SYSL)" % ("" if not q else "61st"))
    ctx.assumptions += ["agreement on the rest of the A64 encoding space (data processing, loads/stores, SIMD) is decided against the Go toolchain's own copy "
                        "of x/arch arm64asm (same lineage as goom's copy, so a mistake common to both is not seen); the bit-field model is independent "
                        "but covers the branch / address classes only; inside the exempt SYS/SYSL space only every 64th disagreement is recorded",
                        "the enumeration of the word space is an exhaustive Go run, not a TLC result; TLC checks its summaries"]
