"""C19 — logging never changes what a mock does. Spec: Goom.tla with the logging switches as
actions that change only `lg`; the same behaviours are replayed under {off, debug, trace,
GOOM_DEBUG=1} and every transcript must equal the requirement's (hence each other)."""
from checks import life


def run(ctx):
    q = ctx.quick()
    base = {"B": '{"b1"}', "T": '{"f", "g"}', "CB": '{"c1"}', "RS": "<- RS_12", "A": "{0, 1}", "Ops": "<- LogOps"}
    life.mc(ctx, dict(base, MaxOps=4 if q else 5), tag="lifecycle + logging switches")
    behs = life.gen(ctx, dict(base, T='{"f"}', Ops="<- StubOps"), 3, "all histories of the stub alphabet (no switches)")
    behs += life.sim(ctx, dict(base, RS="<- RS_3", CB='{"c1", "c2"}'), 150 if q else 2500, 12,
                     "random histories with logging switches at TLC-chosen points")
    for mode, env in (("off", {}), ("debug", {"VERIF_LOG": "debug"}), ("trace", {"VERIF_LOG": "trace"}),
                      ("GOOM_DEBUG", {"VERIF_LOG": "env", "GOOM_DEBUG": "1"})):
        e = dict(env, VERIF_QUIET="1")
        ctx.note("logging configuration: " + mode)
        summ = life.replay(ctx, "life-func" if (q and mode in ("trace",)) else "life", behs, env=e)
        if mode != "off" and not summ.get("debug_steps") and not ctx.violations:
            from lib import vlib
            raise vlib.Broken("logging configuration %s: debug logging was never open during the replay (vacuous)" % mode)
        ctx.cov.setdefault("debug_steps", {})[mode] = summ.get("debug_steps", 0)
    # value rendering: the generated signature zoo of C01 (strings, slices, structs, arrays, funcs, nil interfaces, nil
    # pointers, variadics, multiple results) under every logging configuration
    from checks import c01
    chosen = c01.witnesses(ctx, 30, 300)
    c01.zoo_run(ctx, chosen, [({"VERIF_LOG": "debug", "VERIF_QUIET": "1"}, "zoo, debug logging"),
                              ({"VERIF_LOG": "trace", "VERIF_QUIET": "1"}, "zoo, trace logging"),
                              ({"GOOM_DEBUG": "1", "VERIF_QUIET": "1"}, "zoo, GOOM_DEBUG=1"),
                              ({"VERIF_LOG": "debug-then-off", "VERIF_QUIET": "1"}, "zoo, debug open at apply time and closed before the calls")])
    # the other mock kinds under debug logging: their oracles have no logging variable either
    from lib.replay import replay_family
    dbg = {"VERIF_LOG": "debug", "VERIF_QUIET": "1"}
    n = 120 if q else 1500
    fam = [("iface", "MC_Iface", "Sim_Iface.cfg", {"GODEBUG": "clobberfree=1"}, 12),
           ("method", "MC_Method", "Sim_Method.cfg", {}, 12),
           ("var", "MC_VarMock", "Sim_VarMock.cfg", {}, 13)]
    for name, mod, cfg, env, depth in fam:
        b2 = ctx.behaviours(ctx.tlc(mod, cfg, workers=1, timeout=900, simulate="num=%d" % n, depth=depth, tag="%s histories for the debug replay" % name))
        if name == "method":
            from checks import c06
            summ = replay_family(ctx, name, b2, env=dict(dbg, **env), classify=c06.classify)
        else:
            summ = replay_family(ctx, name, b2, env=dict(dbg, **env), batch=4000)
        if not summ.get("debug_steps") and not ctx.violations:
            from lib import vlib
            raise vlib.Broken("family %s: debug logging was never open during the replay (vacuous)" % name)
    for sig in ("f1", "v1", "mv"):
        two = {"Sig": "<- Sig" + sig.upper(), "V": "{0, 1}", "MaxTail": 2, "MaxClauses": 2, "R": "{1, 2}"}
        b3 = ctx.behaviours(ctx.tlc("MC_When", "MC_When.cfg", workers=1, timeout=900, constants=two, simulate="num=%d" % (60 if q else 800), depth=8,
                                    tag="when/%s configurations for the debug replay" % sig))
        replay_family(ctx, "when", b3, env=dict(dbg, VERIF_SIG=sig))
    # concurrent callers of one mock under debug logging: every caller passes its own argument and must get its own result
    import json, os
    from lib.replay import drv_binary
    out = ctx.path("conc_debug.ndjson")
    rc, o = ctx.run_bin(drv_binary(ctx), "^TestVerifConcStress$", env={"VERIF_OUT": out, "VERIF_ROUNDS": str(15 if q else 150), "VERIF_LOG": "debug", "VERIF_QUIET": "1"}, timeout=900)
    if rc != 0 or not os.path.exists(out):
        ctx.violation("concurrent callers / mockers under debug logging crashed: " + o[-900:], {"family": "conc-debug", "kind": "crash", "tail": o[-2500:]})
    else:
        evs = [json.loads(l) for l in open(out).read().splitlines() if l.strip()]
        bad = [e for e in evs if e.get("ev") == "call" and not e.get("ok")]
        ctx.count(len(evs))
        if bad:
            ctx.violation("under debug logging a caller of a mocked function received a result that is not its own (%d calls, e.g. got %s): "
                          "overlapping calls must not see each other's arguments or results" % (len(bad), bad[0].get("got")),
                          {"family": "conc-debug", "kind": "wrong-result", "calls": len(bad), "first": bad[0]})
        ctx.note("concurrent stress under debug logging: %d events, %d wrong call results" % (len(evs), len(bad)))
    ctx.cov["rule"] = ("the behaviours of the lifecycle family (all histories of the stub alphabet to depth 3 + random "
                       "length-12 histories with OpenDebug/CloseDebug/OpenTrace/CloseTrace interleaved by TLC) replayed under "
                       "4 logging configurations x 4 handle kinds; the oracle (required call results, image) has no logging "
                       "variable, so any dependence on logging is a mismatch; interface, method, variable and conditional-stub histories "
                       "replayed under debug logging as well; the generated signature zoo under debug, trace, GOOM_DEBUG and debug-open-at-apply-closed-at-call")
    ctx.assumptions += ["argument/result values in this family are ints; nil/cyclic/unexported-field values are rendered in the C01/C09 zoo replays under debug"]
