"""C19 — logging never changes what a mock does. Spec: Goom.tla with the logging switches as
actions that change only `lg`; the same behaviours are replayed under {off, debug, trace,
GOOM_DEBUG=1} and every transcript must equal the requirement's (hence each other)."""
from checks import life


def run(ctx):
    q = ctx.quick()
    base = {"B": '{"b1"}', "T": '{"f", "g"}', "CB": '{"c1"}', "RS": "<- RS_12", "A": "{0, 1}", "Ops": "<- LogOps"}
    life.mc(ctx, dict(base, MaxOps=4 if q else 5), tag="lifecycle + logging switches")
    behs = life.gen(ctx, dict(base, T='{"f"}', Ops="<- StubOps"), 3, "all histories of the stub alphabet (no switches)")
    behs += life.sim(ctx, dict(base, RS="<- RS_3", CB='{"c1", "c2"}'), 150 if q else 2500, 12,
                     "random histories with logging switches at TLC-chosen points")
    for mode, env in (("off", {}), ("debug", {"VERIF_LOG": "debug"}), ("trace", {"VERIF_LOG": "trace"}),
                      ("GOOM_DEBUG", {"VERIF_LOG": "env", "GOOM_DEBUG": "1"})):
        e = dict(env, VERIF_QUIET="1")
        ctx.note("logging configuration: " + mode)
        summ = life.replay(ctx, "life-func" if (q and mode in ("trace",)) else "life", behs, env=e)
        if mode != "off" and not summ.get("debug_steps"):
            from lib import vlib
            raise vlib.Broken("logging configuration %s: debug logging was never open during the replay (vacuous)" % mode)
        ctx.cov.setdefault("debug_steps", {})[mode] = summ.get("debug_steps", 0)
    # value rendering: the generated signature zoo of C01 (strings, slices, structs, arrays, funcs, nil interfaces, nil
    # pointers, variadics, multiple results) under every logging configuration
    from checks import c01
    chosen = c01.witnesses(ctx, 30, 300)
    c01.zoo_run(ctx, chosen, [({"VERIF_LOG": "debug", "VERIF_QUIET": "1"}, "zoo, debug logging"),
                              ({"VERIF_LOG": "trace", "VERIF_QUIET": "1"}, "zoo, trace logging"),
                              ({"GOOM_DEBUG": "1", "VERIF_QUIET": "1"}, "zoo, GOOM_DEBUG=1"),
                              ({"VERIF_LOG": "debug-then-off", "VERIF_QUIET": "1"}, "zoo, debug open at apply time and closed before the calls")])
    ctx.cov["rule"] = ("the behaviours of the lifecycle family (all histories of the stub alphabet to depth 3 + random "
                       "length-12 histories with OpenDebug/CloseDebug/OpenTrace/CloseTrace interleaved by TLC) replayed under "
                       "4 logging configurations x 4 handle kinds; the oracle (required call results, image) has no logging "
                       "variable, so any dependence on logging is a mismatch")
    ctx.assumptions += ["argument/result values in this family are ints; nil/cyclic/unexported-field values are rendered in the C01/C09 zoo replays under debug"]
