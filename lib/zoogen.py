"""Generates the signature zoo of C01 from the signatures TLC enumerated with spec/ABI.tla:
one Go function per layout class in package zzverif/zoo and one generated test per class in zzverif/zoodrv."""

GO_TYPE = {"int": "int", "int8": "int8", "bool": "bool", "float64": "float64", "float32": "float32", "string": "string",
           "slice": "[]int", "iface": "interface{}", "func": "func() int", "ptr": "*int", "struct2": "zoo.S2", "struct5": "zoo.S5",
           "array1": "[1]int", "array2": "[2]int"}


def gotype(t, inzoo):
    s = GO_TYPE[t]
    return s.replace("zoo.", "") if inzoo else s


def val(t, i, inzoo=False):
    """Go expression of the canonical value number i of type t."""
    z = "" if inzoo else "zoo."
    return {
        "int": "int(%d)" % (1000 + i), "int8": "int8(%d)" % (i % 100), "bool": "true" if i % 2 == 0 else "false",
        "float64": "float64(%d.5)" % i, "float32": "float32(%d.25)" % i, "string": '"s%d"' % i,
        "slice": "[]int{%d, %d}" % (i, i + 1),
        "iface": "interface{}(nil)" if i % 4 == 0 else "interface{}(%d)" % (i * 7),
        "func": "%sFns[%d]" % (z, i % 16),
        "ptr": "(*int)(nil)" if i % 4 == 2 else "&%sCells[%d]" % (z, i % 64),
        "struct2": "%sS2{A: %d, B: %d.75}" % (z, i, i),
        "struct5": "%sS5{%d, %d, %d, %d, %d}" % (z, i, i + 1, i + 2, i + 3, i + 4),
        "array1": "[1]int{%d}" % i, "array2": "[2]int{%d, %d}" % (i, i + 1),
    }[t]


def eq(t, x, i):
    """Go boolean expression: x equals canonical value i of type t."""
    if t == "slice":
        return "(len(%s) == 2 && %s[0] == %d && %s[1] == %d)" % (x, x, i, x, i + 1)
    if t == "func":
        return "(%s != nil && %s() == %d)" % (x, x, i % 16)
    if t == "ptr":
        return "(%s == nil)" % x if i % 4 == 2 else "(%s == &zoo.Cells[%d])" % (x, i % 64)
    return "(%s == %s)" % (x, val(t, i))


def generate(sigs):
    """sigs: list of dicts {params: [names], variadic: bool, results: [names]}. Returns {relpath: source}."""
    zoo = ['//go:build go1.18', '', '// Package zoo: GENERATED signature zoo for C01 (one function per ABI layout class of spec/ABI.tla).', 'package zoo', '',
           'import "fmt"', '', 'type S2 struct {', '\tA int', '\tB float64', '}', 'type S5 struct{ A, B, C, D, E int }', '',
           'var Cells [64]int', 'var Fns [16]func() int', '', 'func init() {', '\tfor i := range Fns {', '\t\tk := i', '\t\tFns[i] = func() int { return k }', '\t}', '}', '',
           '//go:noinline', 'func work(i int) int {', '\tif i < -10000 {', '\t\tfmt.Println("never")', '\t}', '\treturn i', '}', '']
    drv = ['//go:build go1.18', '', '// Package zoodrv: GENERATED driver of the C01 signature zoo.', 'package zoodrv', '',
           'import (', '\t"fmt"', '', '\tmocker "github.com/tencent/goom"', '\t"github.com/tencent/goom/zzverif/zoo"', ')', '',
           'var _ = fmt.Sprint', '', 'type sigCase struct {', '\tdesc  string', '\tvariadic bool', '\tapply func(b *mocker.Builder, seen *bool)',
           '\tstub  func(b *mocker.Builder)', '\tcall  func(form string, want int) string // want: 0 orig, 1 callback, 2 stub', '}', '', 'var cases = []sigCase{']
    for k, s in enumerate(sigs):
        ps, rs, var = s["params"], s["results"], s["variadic"]
        plist_zoo = ", ".join("p%d %s" % (i + 1, gotype(t, True)) for i, t in enumerate(ps))
        plist = ", ".join("p%d %s" % (i + 1, gotype(t, False)) for i, t in enumerate(ps))
        if var:
            plist_zoo += (", " if ps else "") + "vs ...int"
            plist += (", " if ps else "") + "vs ...int"
        rlist_zoo = "(" + ", ".join(gotype(t, True) for t in rs) + ")" if rs else ""
        rlist = "(" + ", ".join(gotype(t, False) for t in rs) + ")" if rs else ""
        orig_ret = ", ".join(val(t, 200 + j, True) for j, t in enumerate(rs))
        if s.get("tiny"):
            # a leaf whose body is a handful of bytes (constant returner / trivial getter): shorter than the entry jump,
            # patched only thanks to the alignment padding behind it
            zoo += ["//go:noinline", "func T%d(%s) %s {" % (k, plist_zoo.replace("p1 ", "_ ").replace("p2 ", "_ "), rlist_zoo),
                    ("\treturn " + orig_ret) if rs else "", "}", ""]
        else:
            zoo += ["//go:noinline", "func T%d(%s) %s {" % (k, plist_zoo, rlist_zoo), "\twork(%d)" % k] + \
                   ["\t_ = p%d" % (i + 1) for i in range(len(ps))] + (["\t_ = vs"] if var else []) + \
                   (["\treturn " + orig_ret] if rs else []) + ["}", ""]
        # callback
        checks = " && ".join([eq(t, "p%d" % (i + 1), i + 1) for i, t in enumerate(ps)] +
                             (["vsOK(vs)"] if var else [])) or "true"
        cb_ret = ", ".join(val(t, 100 + j) for j, t in enumerate(rs))
        stub_ret = ", ".join(val(t, 300 + j) for j, t in enumerate(rs))
        args = ", ".join(val(t, i + 1) for i, t in enumerate(ps))
        if var:
            args += (", " if ps else "") + "71, 72"
        rvars = ", ".join("r%d" % (j + 1) for j in range(len(rs)))
        assign = (rvars + " = ") if rs else ""
        decl = ("var (\n" + "".join("\t\t\t\tr%d %s\n" % (j + 1, gotype(t, False)) for j, t in enumerate(rs)) + "\t\t\t)") if rs else ""

        def rescheck(base):
            return " && ".join(eq(t, "r%d" % (j + 1), base + j) for j, t in enumerate(rs)) or "true"
        desc = "func(%s%s) (%s)%s" % (", ".join(ps), (", " if ps else "") + "...int" if var else "", ", ".join(rs), " [tiny body]" if s.get("tiny") else "")
        drv += ["\t{", '\t\tdesc: %s,' % json_str(desc), "\t\tvariadic: %s," % ("true" if var else "false"),
                "\t\tapply: func(b *mocker.Builder, seen *bool) {",
                "\t\t\tb.Func(zoo.T%d).Apply(func(%s) %s {" % (k, plist, rlist),
                "\t\t\t\t*seen = %s" % checks,
                ("\t\t\t\treturn " + cb_ret) if rs else "",
                "\t\t\t})", "\t\t},",
                "\t\tstub: func(b *mocker.Builder) { b.Func(zoo.T%d).Return(%s) }," % (k, stub_ret),
                "\t\tcall: func(form string, want int) string {",
                "\t\t\t" + decl if decl else "",
                "\t\t\tswitch form {",
                '\t\t\tcase "direct":', "\t\t\t\t%szoo.T%d(%s)" % (assign, k, args),
                '\t\t\tcase "value":', "\t\t\t\tf := zoo.T%d" % k, "\t\t\t\t%sf(%s)" % (assign, args),
                '\t\t\tcase "defer":', "\t\t\t\tfunc() {", "\t\t\t\t\tdefer func() { %szoo.T%d(%s) }()" % (assign, k, args), "\t\t\t\t}()",
                '\t\t\tcase "go":', "\t\t\t\tdone := make(chan interface{})", "\t\t\t\tgo func() {", "\t\t\t\t\tdefer func() { done <- recover() }()", "\t\t\t\t\t%szoo.T%d(%s)" % (assign, k, args), "\t\t\t\t}()",
                "\t\t\t\tif e := <-done; e != nil {", "\t\t\t\t\tpanic(e)", "\t\t\t\t}",
                '\t\t\tcase "novar":', ("\t\t\t\tvmode = 1\n\t\t\t\t%szoo.T%d(%s)\n\t\t\t\tvmode = 0" % (assign, k, ", ".join(val(t, i + 1) for i, t in enumerate(ps)))) if var else "\t\t\t\tpanic(\"not variadic\")",
                '\t\t\tcase "spread":', ("\t\t\t\tvmode = 2\n\t\t\t\tspreadBuf = append(make([]int, 0, 8), 71, 72)\n\t\t\t\t%szoo.T%d(%sspreadBuf...)\n\t\t\t\tvmode = 0\n\t\t\t\tif spreadBuf[1] != 1072 {\n\t\t\t\t\treturn \"the callback's write into the variadic slice did not reach the caller's slice\"\n\t\t\t\t}" % (assign, k, "".join(val(t, i + 1) + ", " for i, t in enumerate(ps)))) if var else "\t\t\t\tpanic(\"not variadic\")",
                '\t\t\tcase "deep":', "\t\t\t\tdone := make(chan interface{})", "\t\t\t\tgo func() {", "\t\t\t\t\tdefer func() { done <- recover() }()", "\t\t\t\t\tdeepCall(300, func() { %szoo.T%d(%s) })" % (assign, k, args), "\t\t\t\t}()",
                "\t\t\t\tif e := <-done; e != nil {", "\t\t\t\t\tpanic(e)", "\t\t\t\t}",
                "\t\t\t}",
                "\t\t\tok := false", "\t\t\tswitch want {",
                "\t\t\tcase 0:", "\t\t\t\tok = %s" % rescheck(200),
                "\t\t\tcase 1:", "\t\t\t\tok = %s" % rescheck(100),
                "\t\t\tcase 2:", "\t\t\t\tok = %s" % rescheck(300),
                "\t\t\t}",
                "\t\t\tif !ok {",
                ('\t\t\t\treturn fmt.Sprintf("results %%v", []interface{}{%s})' % rvars) if rs else '\t\t\t\treturn "results"',
                "\t\t\t}", '\t\t\treturn ""', "\t\t},", "\t},"]
    drv += ["}", "",
            "// what the callback of a variadic signature must see, per call form: two elements (71, 72); no variadic argument at all",
            "// (vmode 1): a nil slice; the caller's own slice spread with ... (vmode 2): that very slice (capacity 8), writable through",
            "var vmode int", "var spreadBuf []int", "",
            "func vsOK(vs []int) bool {", "\tswitch vmode {", "\tcase 1:", "\t\treturn vs == nil", "\tcase 2:",
            "\t\tif len(vs) != 2 || cap(vs) != 8 || vs[0] != 71 || vs[1] != 72 {", "\t\t\treturn false", "\t\t}", "\t\tvs[1] = 1072", "\t\treturn true", "\t}",
            "\treturn len(vs) == 2 && vs[0] == 71 && vs[1] == 72", "}", ""]
    return {"zzverif/zoo/zoo.go": "\n".join(zoo) + "\n", "zzverif/zoodrv/cases_test.go": "\n".join(l for l in drv if l != "") + "\n"}


def json_str(s):
    import json
    return json.dumps(s)
