"""Direction A: replay TLC-generated behaviours on the real library (harness/drv)."""
import json
import os

from lib import vlib

_bins = {}


def drv_binary(ctx, race=False, tags=vlib.TAG, groups=("drv",), name="drv"):
    key = (race, tags, groups)
    if key not in _bins:
        _bins[key] = ctx.build_test("zzverif/drv", list(groups), name=name + ("_race" if race else ""),
                                    race=race, tags=tags)
    return _bins[key]


def _run(ctx, binary, fam, behs, env=None, timeout=1200):
    fin, fout = ctx.path("beh_%s.ndjson" % fam), ctx.path("res_%s.ndjson" % fam)
    vlib.write_ndjson(fin, behs)
    if os.path.exists(fout):
        os.remove(fout)
    e = {"VERIF_IN": fin, "VERIF_OUT": fout, "VERIF_WORLD": fam}
    if env:
        e.update(env)
    rc, out = ctx.run_bin(binary, "^TestVerifReplay$", env=e, timeout=timeout)
    res = vlib.read_ndjson(fout) if os.path.exists(fout) else []
    summ = [r for r in res if r.get("summary")]
    return rc, out, [r for r in res if not r.get("summary")], (summ[0] if summ else None)


def _bisect_crash(ctx, binary, fam, behs, env):
    lo, hi = 0, len(behs)
    while hi - lo > 1:
        mid = (lo + hi) // 2
        rc, out, mm, summ = _run(ctx, binary, fam, behs[lo:mid], env)
        if summ is None:
            hi = mid
        else:
            lo = mid
    return lo


def replay_family(ctx, fam, behs, env=None, race=False, exhaustive_depth=None, binary=None,
                  classify=None, groups=("drv",)):
    """Replay behaviours; every mismatch Real != Req that reproduces in isolation is a violation."""
    binary = binary or drv_binary(ctx, race=race, groups=groups)
    rc, out, mms, summ = _run(ctx, binary, fam, behs, env)
    if summ is None:
        # crash of the harness process: isolate the behaviour, re-run it twice alone
        idx = _bisect_crash(ctx, binary, fam, behs, env)
        crashes = 0
        last = ""
        for _ in range(2):
            rc2, out2, mm2, s2 = _run(ctx, binary, fam, [behs[idx]], env)
            if s2 is None:
                crashes += 1
                last = out2
        if crashes == 2:
            ro = {"family": fam, "kind": "crash", "behaviour": behs[idx], "tail": last[-1500:],
                  "key": "crash", "op": "crash", "world": "?"}
            if classify:
                classify(ro)
            ctx.violation("harness process crashed replaying one behaviour (reproduced twice): %s" % last[-300:], ro)
            # continue with the rest
            rest = behs[:idx] + behs[idx + 1:]
            if rest:
                replay_family(ctx, fam, rest, env, race, exhaustive_depth, binary, classify, groups)
            return
        raise vlib.Broken("driver died without reproducing (rc=%s): %s" % (rc, out[-1500:]))
    ctx.cov["traces_validated_against_impl"] += summ["runs"]
    ctx.cov["evaluations"] += summ["runs"]
    nontrivial = 0
    for b in behs:
        if any(s.get("op") not in ("Call", "Probe") for s in b):
            nontrivial += 1
    ctx.cov["distinct_nontrivial"] += nontrivial * summ["worlds"]
    for b in behs[:2] + behs[-1:]:
        ctx.sample({"family": fam, "behaviour": b})
    ctx.note("replayed %d behaviours x %d worlds of family %s: %d mismatches" % (
        summ["behaviours"], summ["worlds"], fam, summ["mismatches"]))
    seen = set()
    for mm in mms:
        sig = (mm["world"], mm["op"], mm["key"], mm["want"], mm["got"])
        if sig in seen and len(seen) > 0:
            # same symptom on another behaviour: count, do not re-run
            continue
        seen.add(sig)
        beh = behs[mm["beh"]]
        rc2, out2, mm2, s2 = _run(ctx, binary, fam, [beh], env)
        rep = [m for m in mm2 if m["world"] == mm["world"] and m["key"] == mm["key"]]
        if not rep:
            raise vlib.Broken("mismatch did not reproduce in isolation: %s" % json.dumps(mm))
        ro = {"family": fam, "kind": "mismatch", "world": mm["world"], "step": mm["step"], "op": mm["op"],
              "key": mm["key"], "want": mm["want"], "got": mm["got"], "behaviour": beh[: mm["step"] + 1],
              "ops": " ".join(s["op"] for s in beh[: mm["step"] + 1])}
        if classify:
            classify(ro)
        ctx.violation("after %s (step %d of %s) on %s: %s required=%r real=%r" % (
            mm["op"], mm["step"], [s["op"] for s in beh], mm["world"], mm["key"], mm["want"], mm["got"]), ro)
    return summ
