"""Direction A: replay TLC-generated behaviours on the real library (harness/drv)."""
import json
import os

from lib import vlib

_bins = {}


def drv_binary(ctx, race=False, tags=vlib.TAG, groups=("drv",), name="drv"):
    key = (race, tags, groups)
    if key not in _bins:
        _bins[key] = ctx.build_test("zzverif/drv", list(groups), name=name + ("_race" if race else ""),
                                    race=race, tags=tags)
    return _bins[key]


def _run(ctx, binary, fam, behs, env=None, timeout=None):
    if timeout is None:
        steps = sum(len(b) for b in behs)
        per = float(os.environ.get("VERIF_STEP_S", "0.004"))
        if "_race" in os.path.basename(binary):
            per *= 25          # the whole-image diff after every step is an order of magnitude slower when instrumented
        timeout = int(120 + steps * per * 12)   # generous: the per-behaviour watchdog (30 s) catches real hangs; this only bounds a frozen run
    fin, fout = ctx.path("beh_%s.ndjson" % fam), ctx.path("res_%s.ndjson" % fam)
    vlib.write_ndjson(fin, behs)
    if os.path.exists(fout):
        os.remove(fout)
    e = {"VERIF_IN": fin, "VERIF_OUT": fout, "VERIF_WORLD": fam}
    if env:
        e.update(env)
    rc, out = ctx.run_bin(binary, "^TestVerifReplay$", env=e, timeout=timeout)
    if rc == 124 or "panic: test timed out" in out:
        # the replay as a whole ran out of its time budget (slow machine, instrumented build): never a verdict
        raise vlib.Broken("replay of family %s (%d behaviours) exceeded its time budget of %d s" % (fam, len(behs), timeout))
    res = vlib.read_ndjson(fout) if os.path.exists(fout) else []
    summ = [r for r in res if r.get("summary")]
    return rc, out, [r for r in res if not r.get("summary")], (summ[0] if summ else None)


def _progress(ctx, fam):
    try:
        return int(open(ctx.path("res_%s.ndjson.progress" % fam)).read().strip())
    except Exception:
        return None


def replay_family(ctx, fam, behs, env=None, race=False, exhaustive_depth=None, binary=None,
                  classify=None, groups=("drv",), batch=None):
    """Replay behaviours; every mismatch Real != Req that reproduces in isolation is a violation.
    A crash or hang of the driver is attributed to the behaviour in progress (progress file),
    re-run twice alone, and only then reported; the remaining behaviours are still replayed."""
    binary = binary or drv_binary(ctx, race=race, groups=groups)
    if batch and len(behs) > batch:
        # several processes (per-process resources such as never-unmapped stub pages are finite)
        tot = None
        for i in range(0, len(behs), batch):
            s1 = replay_family(ctx, fam, behs[i:i + batch], env, race, exhaustive_depth, binary, classify, groups)
            if tot is None:
                tot = dict(s1)
            else:
                for k in ("runs", "behaviours", "mismatches", "debug_steps"):
                    tot[k] = tot.get(k, 0) + s1.get(k, 0)
        return tot
    start, crashes, total = 0, 0, {"runs": 0, "behaviours": 0, "mismatches": 0, "worlds": 1}
    all_mms = []
    while start < len(behs):
        part = behs[start:]
        rc, out, mms, summ = _run(ctx, binary, fam, part, env)
        for m in mms:
            m["beh"] += start
        all_mms += mms
        if summ is not None:
            for k in ("runs", "behaviours", "mismatches"):
                total[k] += summ[k]
            total["debug_steps"] = total.get("debug_steps", 0) + summ.get("debug_steps", 0)
            total["worlds"] = summ["worlds"]
            break
        idx = _progress(ctx, fam)
        if idx is None:
            raise vlib.Broken("driver died before its first behaviour (rc=%s): %s" % (rc, out[-1500:]))
        bad = behs[start + idx]
        n_bad, last = 0, ""
        for _ in range(2):
            rc2, out2, mm2, s2 = _run(ctx, binary, fam, [bad], env, timeout=120)
            if s2 is None:
                n_bad += 1
                last = out2
        seq = None
        if n_bad < 2:
            # not reproducible alone: the behaviours of one process, each closed by a Reset of every builder, form ONE
            # legal history of the API; if the crash reproduces on that history (twice) it is a violation of it
            prefix = behs[start:start + idx + 1]
            n_seq = 0
            for _ in range(2):
                rc3, out3, mm3, s3 = _run(ctx, binary, fam, prefix, env)
                if s3 is None and _progress(ctx, fam) == idx:
                    n_seq += 1
                    last = out3
            if n_seq < 2:
                # the point of death moves (collector timing): does the process die on EVERY run of this batch?
                deaths = []
                good = None
                for _ in range(3):
                    rc4, out4, mm4, s4 = _run(ctx, binary, fam, part, env)
                    if s4 is None:
                        deaths.append(_progress(ctx, fam))
                        last = out4
                    else:
                        good = (mm4, s4)
                if not deaths:
                    # the death / stall was seen ONCE in eight runs over these behaviours (twice alone, twice the same sequence,
                    # three times the whole batch): the three complete runs of the batch decide; the incident is recorded
                    if mms:
                        del all_mms[-len(mms):]
                    mm4, s4 = good
                    for m in mm4:
                        m["beh"] += start
                    all_mms += mm4
                    for k in ("runs", "behaviours", "mismatches"):
                        total[k] += s4[k]
                    total["debug_steps"] = total.get("debug_steps", 0) + s4.get("debug_steps", 0)
                    total["worlds"] = s4["worlds"]
                    ctx.cov["unreproduced_driver_incidents"] = ctx.cov.get("unreproduced_driver_incidents", 0) + 1
                    ctx.note("family %s: the driver died / stalled once at behaviour %d (rc=%s: %s) and on none of 7 further runs (2 alone, 2 same "
                             "sequence, 3 whole batch); the complete runs decide" % (fam, start + idx, rc, out[-160:].replace("\n", " ")))
                    break
                if len(deaths) < 3:
                    raise vlib.Broken("driver died on behaviour %d but neither alone nor on the same sequence again (rc=%s): %s" % (
                        start + idx, rc, out[-1500:]))
                ro = {"family": fam, "kind": "crash-every-run", "env": env or {}, "deaths_at": deaths, "tail": last[-1500:], "key": "crash",
                      "op": "crash", "world": "?", "sequence": part[: max(deaths) + 1][-40:], "sequence_len": max(deaths) + 1}
                if classify:
                    classify(ro)
                ctx.violation("the driver process dies on every run of this batch of legal histories (4 of 4 runs, at behaviours %s - the point "
                              "moves with collector timing): %s" % ([start + idx] + deaths, last[-400:]), ro)
                break
            seq = prefix
        ro = {"family": fam, "kind": "crash", "env": env or {}, "behaviour": bad, "tail": last[-1500:], "key": "crash",
              "op": "crash", "world": "?", "ops": " ".join(s["op"] for s in bad)}
        if seq is not None:
            ro["kind"] = "crash-after-sequence"
            ro["sequence"] = seq[-40:]
            ro["sequence_len"] = len(seq)
        if classify:
            classify(ro)
        ctx.violation("driver crashed or hung replaying one behaviour (reproduced twice alone): %s ... %s" % (
            [s["op"] for s in bad], last[-400:]), ro)
        total["behaviours"] += idx
        crashes += 1
        start += idx + 1
        if crashes >= 4:
            ctx.note("stopped after %d crashing behaviours" % crashes)
            break
    summ = total
    mms = all_mms
    ctx.cov["traces_validated_against_impl"] += summ["runs"]
    ctx.cov["evaluations"] += summ["runs"]
    nontrivial = 0
    for b in behs:
        if any(s.get("op") not in ("Call", "Probe") for s in b):
            nontrivial += 1
    ctx.cov["distinct_nontrivial"] += nontrivial * summ["worlds"]
    for b in behs[:2] + behs[-1:]:
        ctx.sample({"family": fam, "behaviour": b})
    ctx.note("replayed %d behaviours x %d worlds of family %s: %d mismatches" % (
        summ["behaviours"], summ["worlds"], fam, summ["mismatches"]))
    seen = set()
    unreproduced = []
    nviol0 = len(ctx.violations)
    for mm in mms:
        sig = (mm["world"], mm["op"], mm["key"], mm["want"], mm["got"])
        if sig in seen and len(seen) > 0:
            # same symptom on another behaviour: count, do not re-run
            continue
        seen.add(sig)
        beh = behs[mm["beh"]]
        rc2, out2, mm2, s2 = _run(ctx, binary, fam, [beh], env)
        rep = [m for m in mm2 if m["world"] == mm["world"] and m["step"] <= mm["step"]]
        seq = None
        if not rep:
            # see above: the sequence of behaviours up to this one is itself a legal history
            prefix = behs[: mm["beh"] + 1]
            rc3, out3, mm3, s3 = _run(ctx, binary, fam, prefix, env)
            if not [m for m in mm3 if m["beh"] == mm["beh"] and m["world"] == mm["world"]]:
                probe = {"family": fam, "kind": "mismatch", "got": mm["got"], "want": mm["want"], "op": mm["op"], "key": mm["key"], "world": mm["world"]}
                if classify:
                    classify(probe)
                if probe.get("finding") == "F5":
                    # F5 depends on the moment: the relocated stack check also "fails" while a preemption request is pending
                    # (the runtime sets stackguard0 = stackPreempt), so an occurrence need not reproduce. It is a listed finding.
                    probe["note"] = "not reproduced on re-run (timing dependent: pending preemption request / stack headroom)"
                    ctx.violation("after %s on %s: %s required=%r real=%r (seen once, timing dependent)" % (mm["op"], mm["world"], mm["key"], mm["want"], mm["got"]), probe)
                    continue
                unreproduced.append(mm)
                continue
            seq = prefix
        ro = {"family": fam, "kind": "mismatch", "env": env or {}, "world": mm["world"], "step": mm["step"], "op": mm["op"],
              "key": mm["key"], "want": mm["want"], "got": mm["got"], "behaviour": beh[: mm["step"] + 1],
              "ops": " ".join(s["op"] for s in beh[: mm["step"] + 1])}
        if seq is not None:
            ro["kind"] = "mismatch-after-sequence"
            ro["sequence"] = seq[-40:]
            ro["sequence_len"] = len(seq)
        if classify:
            classify(ro)
        ctx.violation("after %s (step %d of %s) on %s: %s required=%r real=%r" % (
            mm["op"], mm["step"], [s["op"] for s in beh], mm["world"], mm["key"], mm["want"], mm["got"]), ro)
    if unreproduced:
        if not ctx.violations:
            raise vlib.Broken("mismatch reproduced neither in isolation nor on the same sequence: %s" % json.dumps(unreproduced[0]))
        # other mismatches of this family WERE reproduced and reported: the real code is not deterministic here (e.g. map
        # iteration order); the unreproduced ones add nothing and do not turn a confirmed verdict into "machinery broken"
        ctx.note("%d further mismatches of family %s did not reproduce on re-run (non-deterministic behaviour of the code under test); "
                 "the verdict rests on the reproduced ones" % (len(unreproduced), fam))
    return summ


def replay_file(ctx, path):
    """bin/check <id> --replay <path>: re-run the stored counterexample. Behaviour replays are re-executed alone;
    for record-type replays (trace validation) the stored record is shown and the quick check is re-run."""
    d = json.load(open(path))
    ro = d.get("replay", {})
    print("replaying %s: %s" % (path, d.get("what", "")[:300]))
    fam = ro.get("family")
    if "behaviour" in ro and fam:
        replay_family(ctx, fam, [ro["behaviour"]], env=ro.get("env") or None)
        return True
    return False
