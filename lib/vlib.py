"""Common machinery for /verif checks: scratch dirs, TLC runs, Go overlay builds,
evidence files, known findings, verdict lines.

Exit codes (DESIGN 2.6): 0 held, 1 VIOLATION (real-code observation contradicts the spec,
reproduced), 2 machinery broken (never a violation).
"""
import hashlib
import json
import os
import re
import shutil
import subprocess
import sys
import tempfile
import time

VERIF = os.path.dirname(os.path.dirname(os.path.abspath(__file__)))
REPO = os.environ.get("VERIF_REPO", "/repo")
TAG = "verif"


class Broken(Exception):
    """machinery failure -> exit 2"""


def goenv(extra=None):
    e = dict(os.environ)
    e.update({"GOFLAGS": "-mod=mod", "GOPROXY": "off", "GOSUMDB": "off", "GOTOOLCHAIN": "local",
              "CGO_ENABLED": e.get("CGO_ENABLED", "1")})
    if extra:
        e.update(extra)
    return e


def sh(cmd, cwd=None, env=None, timeout=None, check=False, stdin=None):
    p = subprocess.run(cmd, cwd=cwd, env=env, timeout=timeout, stdout=subprocess.PIPE,
                       stderr=subprocess.STDOUT, text=True, input=stdin, errors="replace")
    if check and p.returncode != 0:
        raise Broken("command failed (%d): %s\n%s" % (p.returncode, cmd, p.stdout[-4000:]))
    return p.returncode, p.stdout


def repo_fingerprint():
    rc, st = sh(["git", "-C", REPO, "status", "--porcelain"])
    h = hashlib.sha256(st.encode())
    for f in ("go.mod", "go.sum"):
        try:
            h.update(open(os.path.join(REPO, f), "rb").read())
        except OSError:
            pass
    return h.hexdigest()


class Ctx:
    def __init__(self, pid, tier, seed, replay=None):
        self.pid, self.tier, self.seed, self.replay = pid, tier, seed, replay
        self.t0 = time.time()
        self.scratch = tempfile.mkdtemp(prefix="verif_%s_" % pid)
        self.home = os.path.join(self.scratch, "home")
        os.makedirs(self.home)
        self.cov = {"states": 0, "transitions": 0, "traces_validated_against_impl": 0, "samples": [],
                    "evaluations": 0, "distinct_nontrivial": 0, "rule": "", "exhaustive": False,
                    "tlc_runs": [], "notes": []}
        self.assumptions = []
        self.violations = []
        self.known_hits = []
        self.fp0 = repo_fingerprint()
        self.known = load_known()
        self._distinct = set()

    # ---------------------------------------------------------------- evidence
    def quick(self):
        return self.tier == "quick"

    def note(self, s):
        self.cov["notes"].append(s)
        print("note:", s, flush=True)

    def sample(self, obj):
        if len(self.cov["samples"]) < 6:
            self.cov["samples"].append(obj)

    def count(self, n=1, distinct_key=None):
        self.cov["evaluations"] += n
        if distinct_key is not None:
            self._distinct.add(distinct_key)

    def write_evidence(self, level="model_checking"):
        self.cov["distinct_nontrivial"] = max(self.cov["distinct_nontrivial"], len(self._distinct))
        ev = {"property_id": self.pid, "tier": self.tier, "seed": self.seed, "level": level,
              "coverage": self.cov, "assumptions": self.assumptions,
              "wall_s": round(time.time() - self.t0, 2), "violations": len(self.violations),
              "known_findings_hit": self.known_hits}
        os.makedirs(os.path.join(VERIF, "evidence"), exist_ok=True)
        with open(os.path.join(VERIF, "evidence", self.pid + ".json"), "w") as f:
            json.dump(ev, f, indent=1, sort_keys=True)
            f.write("\n")

    # ---------------------------------------------------------------- verdicts
    def violation(self, what, replay_obj):
        """Record a violation unless it is a listed open known finding (matched by signature)."""
        for k in self.known:
            if k["property"] == self.pid and k["status"] == "open" and k_match(k, replay_obj):
                if k["id"] not in [h["id"] for h in self.known_hits]:
                    self.known_hits.append({"id": k["id"], "what": k["what"], "count": 1})
                    print("KNOWN-FINDING: property=%s %s" % (self.pid, k["what"]), flush=True)
                else:
                    for h in self.known_hits:
                        if h["id"] == k["id"]:
                            h["count"] += 1
                return False
        blob = json.dumps(replay_obj, sort_keys=True)
        hsh = hashlib.sha256(blob.encode()).hexdigest()[:12]
        d = os.path.join(VERIF, "replays", self.pid)
        os.makedirs(d, exist_ok=True)
        path = os.path.join(d, hsh + ".json")
        with open(path, "w") as f:
            json.dump({"property": self.pid, "what": what, "tier": self.tier, "seed": self.seed,
                       "replay": replay_obj}, f, indent=1)
        self.violations.append(path)
        if len(self.violations) <= 5:
            print("VIOLATION property=%s replay=%s" % (self.pid, path), flush=True)
            print("  " + what[:600], flush=True)
        return True

    def finish(self, level="model_checking"):
        fp1 = repo_fingerprint()
        self.cleanup()
        if fp1 != self.fp0:
            self.write_evidence(level)
            print("BROKEN: the check changed %s (git status / go.mod / go.sum differ)" % REPO)
            sys.exit(2)
        self.write_evidence(level)
        if self.violations:
            sys.exit(1)
        print("OK property=%s tier=%s wall=%.1fs states=%d traces=%d evals=%d" % (
            self.pid, self.tier, time.time() - self.t0, self.cov["states"],
            self.cov["traces_validated_against_impl"], self.cov["evaluations"]))
        sys.exit(0)

    def cleanup(self):
        if os.environ.get("VERIF_KEEP"):
            print("kept scratch:", self.scratch)
            return
        shutil.rmtree(self.scratch, ignore_errors=True)

    # ---------------------------------------------------------------- TLC
    def specdir(self):
        d = os.path.join(self.scratch, "spec")
        if not os.path.isdir(d):
            shutil.copytree(os.path.join(VERIF, "spec"), d)
        return d

    def tlc(self, module, cfg=None, workers=None, timeout=600, extra=None, expect_violation=False,
            constants=None, tag=None, jvm=None, simulate=None, depth=None):
        """Run TLC on spec/<module>.tla with spec/<cfg>. Returns dict(rc, out, generated, distinct, printed)."""
        d = self.specdir()
        cfgfile = cfg or (module + ".cfg")
        if constants:
            # write a derived cfg with substituted constants ("NAME = value" lines appended/replaced)
            src = open(os.path.join(d, cfgfile)).read()
            for k, v in constants.items():
                pat = re.compile(r"^\s*%s\s*(=|<-).*$" % re.escape(k), re.M)
                v = str(v)
                line = "  %s %s" % (k, v) if v.startswith("<-") else "  %s = %s" % (k, v)
                if pat.search(src):
                    src = pat.sub(line.replace("\\", "\\\\"), src)
                else:
                    src += "\nCONSTANT %s\n" % line
            cfgfile = "_gen_%s_%d.cfg" % (module, len(self.cov["tlc_runs"]))
            open(os.path.join(d, cfgfile), "w").write(src)
        meta = tempfile.mkdtemp(prefix="meta_", dir=self.scratch)
        if workers is None:
            workers = "auto"
        cmd = ["timeout", str(timeout), "tlc", "-workers", str(workers), "-metadir", meta,
               "-config", cfgfile, "-seed", str(self.seed), "-noGenerateSpecTE"]
        if simulate:
            cmd += ["-simulate", simulate]
        if depth:
            cmd += ["-depth", str(depth)]
        if extra:
            cmd += extra
        cmd.append(module + ".tla")
        env = dict(os.environ)
        # TLC leaves an empty temporary directory behind per run: keep it inside the scratch directory of this check
        jtmp = os.path.join(self.scratch, "jtmp")
        os.makedirs(jtmp, exist_ok=True)
        env["JAVA_TOOL_OPTIONS"] = ((jvm + " ") if jvm else "") + "-Djava.io.tmpdir=" + jtmp
        t0 = time.time()
        rc, out = sh(cmd, cwd=d, env=env)
        shutil.rmtree(meta, ignore_errors=True)
        gen = dist = 0
        m = re.findall(r"(\d+) states generated, (\d+) distinct states found", out)
        if m:
            gen, dist = int(m[-1][0]), int(m[-1][1])
        else:
            m2 = re.findall(r"(\d+) states checked", out)
            if m2:
                gen = dist = int(m2[-1])
        printed = [ln for ln in out.splitlines() if ln.startswith('"') or ln.startswith("<<")]
        res = {"rc": rc, "out": out, "generated": gen, "distinct": dist, "printed": printed,
               "wall": round(time.time() - t0, 2)}
        self.cov["tlc_runs"].append({"module": module, "cfg": cfg or module + ".cfg", "tag": tag or "",
                                     "generated": gen, "distinct": dist, "rc": rc, "wall_s": res["wall"]})
        self.cov["states"] += dist
        self.cov["transitions"] += gen
        if rc == 124:
            raise Broken("TLC timeout on %s/%s" % (module, cfgfile))
        if rc == 10 and expect_violation and "Postcondition" in out:
            return res  # trace rejected (POSTCONDITION false)
        if rc != 0 and not (expect_violation and rc in (11, 12, 13)) and not simulate:
            raise Broken("TLC failed rc=%d on %s/%s:\n%s" % (rc, module, cfgfile, out[-3000:]))
        if simulate and rc not in (0,):
            # simulation ends through num= limit with rc 0; anything else is an error
            raise Broken("TLC simulate failed rc=%d on %s/%s:\n%s" % (rc, module, cfgfile, out[-3000:]))
        return res

    def apalache(self, files, main, args, timeout=900, tag=None):
        """Run apalache-mc check in a scratch copy of the given spec files. Returns (rc, out): 0 = no error, 12 = counterexample."""
        d = os.path.join(self.scratch, "apa_%d" % len(self.cov["tlc_runs"]))
        os.makedirs(d, exist_ok=True)
        for f in files:
            shutil.copy(os.path.join(VERIF, "spec", f), d)
        cmd = ["apalache-mc", "check"] + list(args) + [main]
        t0 = time.time()
        try:
            rc, out = sh(cmd, cwd=d, timeout=timeout)
        except subprocess.TimeoutExpired:
            raise Broken("apalache timeout on %s %s" % (main, args))
        self.cov["tlc_runs"].append({"module": main, "cfg": "apalache-mc check " + " ".join(args), "tag": tag or "", "generated": 0, "distinct": 0,
                                     "rc": rc, "wall_s": round(time.time() - t0, 1)})
        if rc not in (0, 12):
            raise Broken("apalache failed rc=%d on %s %s:\n%s" % (rc, main, args, out[-2500:]))
        return rc, out

    def behaviours(self, res):
        """Decode behaviours printed by TLC via PrintT(ToJson(hist))."""
        out = []
        for ln in res["printed"]:
            if not ln.startswith('"'):
                continue
            try:
                out.append(json.loads(json.loads(ln)))
            except Exception:
                continue
        return out

    # ---------------------------------------------------------------- Go
    def overlay(self, groups):
        """Build an overlay json that injects /verif/harness/<group>/<rel> at REPO/<rel>."""
        rep = {}
        for g in groups:
            root = os.path.join(VERIF, "harness", g)
            for dp, _, fns in os.walk(root):
                for fn in fns:
                    src = os.path.join(dp, fn)
                    rel = os.path.relpath(src, root)
                    rep[os.path.join(REPO, rel)] = src
        path = os.path.join(self.scratch, "overlay_%s.json" % "_".join(groups))
        json.dump({"Replace": rep}, open(path, "w"))
        return path

    def extra_overlay(self, base_overlay, files):
        """files: {repo-relative path: content}; returns new overlay path."""
        ov = json.load(open(base_overlay))
        d = tempfile.mkdtemp(prefix="gen_", dir=self.scratch)
        for i, (rel, content) in enumerate(files.items()):
            p = os.path.join(d, "%d_%s" % (i, os.path.basename(rel)))
            open(p, "w").write(content)
            ov["Replace"][os.path.join(REPO, rel)] = p
        path = os.path.join(d, "overlay.json")
        json.dump(ov, open(path, "w"))
        return path

    def build_test(self, pkg_rel, groups, name=None, tags=TAG, race=False, ldflags="-s=false",
                   overlay=None, buildmode=None, gcflags="all=-l", extra_env=None):
        """go test -c for REPO/<pkg_rel> with overlay groups; returns binary path."""
        ov = overlay or self.overlay(groups)
        out = os.path.join(self.scratch, (name or pkg_rel.replace("/", "_").replace(".", "root")) + ".test")
        cmd = ["go", "test", "-c", "-vet=off", "-overlay", ov, "-o", out]
        if tags:
            cmd += ["-tags", tags]
        if gcflags:
            # -race turns on checkptr, which rejects goom's deliberate unsafe pointer arithmetic (not a data race)
            cmd += ["-gcflags=" + gcflags + (" -d=checkptr=0" if race else "")]
        if ldflags:
            cmd += ["-ldflags=" + ldflags]
        if race:
            cmd += ["-race"]
        if buildmode:
            cmd += ["-buildmode=" + buildmode]
        if os.environ.get("VERIF_COVER") and not race and not buildmode:
            # bin/coverage: which statements of goom the drivers reach (a review aid, not part of any verdict)
            cmd += ["-cover", "-coverpkg=github.com/tencent/goom,github.com/tencent/goom/arg,github.com/tencent/goom/erro,github.com/tencent/goom/internal/..."]
            COVER_BINS.add(out)
        cmd.append("./" + pkg_rel if pkg_rel != "." else ".")
        rc, o = sh(cmd, cwd=REPO, env=goenv(extra_env), timeout=900)
        if rc != 0 or not os.path.exists(out):
            raise Broken("go test -c failed for %s:\n%s" % (pkg_rel, o[-4000:]))
        return out

    def run_bin(self, binary, run, env=None, timeout=600, args=None):
        e = dict(os.environ)
        e["HOME"] = self.home
        e["VERIF_SEED"] = str(self.seed)
        e["VERIF_TIER"] = self.tier
        if env:
            e.update(env)
        cmd = [binary, "-test.run", run, "-test.timeout", "%ds" % (timeout + 30), "-test.count=1"]
        if os.environ.get("VERIF_COVER") and binary in COVER_BINS:
            os.makedirs(os.environ["VERIF_COVER"], exist_ok=True)
            cmd += ["-test.coverprofile", os.path.join(os.environ["VERIF_COVER"], "%s_%d.out" % (self.pid, int(time.time() * 1000) % 10 ** 9))]
        if args:
            cmd += args
        try:
            rc, out = sh(cmd, cwd=self.scratch, env=e, timeout=timeout + 60)
        except subprocess.TimeoutExpired:
            return 124, "timeout"
        return rc, out

    def path(self, name):
        return os.path.join(self.scratch, name)


COVER_BINS = set()


# -------------------------------------------------------------------- known findings
def load_known():
    p = os.path.join(VERIF, "known_findings.json")
    if not os.path.exists(p):
        return []
    return json.load(open(p))["findings"]


def k_match(k, replay_obj):
    """A known finding matches when every key of its 'signature' equals the replay object's value
    (strings: regex fullmatch)."""
    sig = k.get("signature") or {}
    if not sig:
        return False
    for key, want in sig.items():
        got = replay_obj.get(key)
        if isinstance(want, str):
            if got is None or not re.fullmatch(want, str(got), re.S):
                return False
        elif got != want:
            return False
    return True


def read_ndjson(path):
    out = []
    with open(path) as f:
        for ln in f:
            ln = ln.strip()
            if ln:
                try:
                    out.append(json.loads(ln))
                except ValueError:
                    pass  # truncated last line of a crashed driver
    return out


def write_ndjson(path, recs):
    with open(path, "w") as f:
        for r in recs:
            f.write(json.dumps(r, separators=(",", ":")))
            f.write("\n")
