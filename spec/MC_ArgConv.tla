---- MODULE MC_ArgConv ----
EXTENDS ArgConv
VARIABLE x
Init == x = 0
Next == UNCHANGED x
Spec == Init /\ [][Next]_x
Inv == CellsConform
====
