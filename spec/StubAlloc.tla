------------------------------ MODULE StubAlloc ------------------------------
(* C20: executable stub space.  stub.Acquire(len) first tries an anonymous RWX mapping (fresh
   region from the OS) and falls back to a bump allocator over a reserve inside .text
   (stub.Placeholder).  The fallback is lock-free; its atomic steps are separate actions:

     Load(p)     pl := atomic.LoadUintptr(&off)                         (hook holder.loaded)
     Finish(p)   if pl+len > max          -> Err
                 n := atomic.AddUintptr(&off, len)                      (hook holder.added)
                 if n > max               -> Err
                 grant [n-len, n)         (since the fix; before it: [pl, pl+len), finding F11)

   Reserve = [0, R).  Mmap(p) models the primary path: a fresh region disjoint from everything. *)
EXTENDS Integers, Sequences, FiniteSets

CONSTANTS
    \* @type: Set(Int);
    P,          \* requesting processes
    \* @type: Set(Int);
    Sizes,      \* request sizes
    \* @type: Int;
    K,          \* requests per process
    \* @type: Int;
    R,          \* size of the reserve
    \* @type: Bool;
    MmapWorks   \* BOOLEAN: may the primary path succeed

\* (the @type comments are Apalache annotations: StubAllocInd.tla proves the invariants inductively, for any K and R)
VARIABLES
    \* @type: Int;
    off,
    \* @type: Int -> Str;
    pc,
    \* @type: Int -> Int;
    pl,
    \* @type: Int -> Int;
    want,
    \* @type: Int -> Int;
    done,
    \* @type: Set({p: Int, k: Int, lo: Int, hi: Int, len: Int, src: Str});
    granted,
    \* @type: Int;
    fresh,
    \* @type: Seq({p: Int, act: Str, len: Int, lo: Int, err: Bool});
    hist
vars == <<off, pc, pl, want, done, granted, fresh, hist>>

Init == /\ off = 0
        /\ pc = [p \in P |-> "idle"]
        /\ pl = [p \in P |-> 0]
        /\ want = [p \in P |-> 0]
        /\ done = [p \in P |-> 0]
        /\ granted = {}           \* set of [p, k, lo, hi, len, src]
        /\ fresh = 1000           \* next address the OS hands out
        /\ hist = <<>>

\* primary path succeeds: whole request served by the OS
Mmap(p, len) == /\ MmapWorks /\ pc[p] = "idle" /\ done[p] < K
                /\ granted' = granted \cup {[p |-> p, k |-> done[p], lo |-> fresh, hi |-> fresh + len, len |-> len, src |-> "mmap"]}
                /\ fresh' = fresh + len + 1
                /\ done' = [done EXCEPT ![p] = @ + 1]
                /\ hist' = Append(hist, [p |-> p, act |-> "Mmap", len |-> len, lo |-> fresh, err |-> FALSE])
                /\ UNCHANGED <<off, pc, pl, want>>

\* primary path failed; first atomic step of the fallback
Load(p, len) == /\ pc[p] = "idle" /\ done[p] < K
                /\ pl' = [pl EXCEPT ![p] = off]
                /\ want' = [want EXCEPT ![p] = len]
                /\ pc' = [pc EXCEPT ![p] = "loaded"]
                /\ hist' = Append(hist, [p |-> p, act |-> "Load", len |-> len, lo |-> off, err |-> FALSE])
                /\ UNCHANGED <<off, done, granted, fresh>>

Finish(p) == /\ pc[p] = "loaded"
             /\ LET len == want[p] IN
                IF pl[p] + len > R
                THEN /\ hist' = Append(hist, [p |-> p, act |-> "Finish", len |-> len, lo |-> -1, err |-> TRUE])
                     /\ UNCHANGED <<off, granted>>
                ELSE LET n == off + len IN
                     /\ off' = n
                     /\ IF n > R
                        THEN /\ hist' = Append(hist, [p |-> p, act |-> "Finish", len |-> len, lo |-> -1, err |-> TRUE])
                             /\ UNCHANGED granted
                        ELSE /\ granted' = granted \cup {[p |-> p, k |-> done[p], lo |-> n - len, hi |-> n, len |-> len, src |-> "holder"]}
                             /\ hist' = Append(hist, [p |-> p, act |-> "Finish", len |-> len, lo |-> n - len, err |-> FALSE])
             /\ pc' = [pc EXCEPT ![p] = "idle"]
             /\ done' = [done EXCEPT ![p] = @ + 1]
             /\ UNCHANGED <<pl, want, fresh>>

Next == \E p \in P : Finish(p) \/ \E len \in Sizes : Load(p, len) \/ Mmap(p, len)
Spec == Init /\ [][Next]_vars
AllDone == \A p \in P : done[p] = K /\ pc[p] = "idle"

\* ---- what C20 states ----
Disjoint == \A a, b \in granted : a # b => (a.hi <= b.lo \/ b.hi <= a.lo)
InReserve == \A a \in granted : a.src = "holder" => (0 <= a.lo /\ a.hi <= R)
Sized == \A a \in granted : a.hi - a.lo >= a.len
\* exhaustion is an error: whatever was granted from the reserve fits into it
NoOverrun == LET H == {a \in granted : a.src = "holder"} IN
             \A a \in H : a.hi <= R

View == <<off, pc, pl, want, done, granted, fresh>>
=============================================================================
