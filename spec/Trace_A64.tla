---- MODULE Trace_A64 ----
EXTENDS A64Format, Json
CONSTANT TraceFile
Trace == ndJsonDeserialize(TraceFile)
VARIABLES l, bad, tally
Init == l = 1 /\ bad = <<>> /\ tally = [ok |-> 0, outside |-> 0, chunks |-> 0]
Next == /\ l <= Len(Trace)
        /\ LET v == Judge(Trace[l]) IN
           /\ bad' = IF v \in {"ok", "outside-model"} \/ Len(bad) >= 40 THEN bad ELSE Append(bad, <<v, l>>)
           /\ tally' = [ok |-> tally.ok + (IF v = "ok" THEN 1 ELSE 0), outside |-> tally.outside + (IF v = "outside-model" THEN 1 ELSE 0),
                        chunks |-> tally.chunks + (IF Trace[l].ev \in {"chunk", "dchunk"} THEN 1 ELSE 0)]   \* (word totals exceed TLC's 32-bit integers: summed outside)
        /\ l' = l + 1
Spec == Init /\ [][Next]_<<l, bad, tally>>
Done == (l = Len(Trace) + 1) => PrintT(ToJson([summary |-> TRUE, tally |-> tally, bad |-> bad]))
Accepted == TLCGet("stats").diameter - 1 = Len(Trace)
====
