SPECIFICATION Spec
CONSTANTS
  B = {"b1"}
  T = {"f", "g"}
  CB = {"c1", "c2"}
  RS <- RS_3
  A = {0, 1}
  Ops <- AllOps
  MaxOps = 10
INVARIANT Emit
CHECK_DEADLOCK FALSE
