SPECIFICATION Spec
CONSTANTS
  N = 4
  GroupNames <- GNs
  Groups <- G4
  CondSizes = {2}
  SeqSizes = {2}
  MaxOps = 5
INVARIANT OwnedIffMocked
PROPERTY ResetExact
VIEW View
CHECK_DEADLOCK FALSE
