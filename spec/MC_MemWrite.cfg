SPECIFICATION Spec
CONSTANTS
  PageSize = 8
  NPages = 3
  MaxLen = 10
INVARIANT XNeverDropped
INVARIANT OnlyCovered
INVARIANT WritableOnlyLocked
INVARIANT CopyNeedsW
INVARIANT CopyWhenWritable
INVARIANT NoWriteLeft
CHECK_DEADLOCK FALSE
