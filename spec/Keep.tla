--------------------------------- MODULE Keep ---------------------------------
(* C01, "keeps holding across garbage collections ... until reset": what keeps a function mock's replacement alive.

   The entry jump written into a target loads a pointer to the replacement's func value (a heap object when the
   replacement is a capturing closure or the MakeFunc value of a stub) and jumps through it; the collector does not see
   pointers inside machine code.  Roots that keep the object alive:
     - the global patch table (internal/patch.patches[target] -> patch -> replacement value), until the target is unpatched
     - the builder's mockers (baseMocker.imp), while the test still references the builder
   Drop(b) = the test drops every reference to builder b and its handles (a helper installed the mock and returned);
   GC = a collection.  The requirement: an installed mock answers with its replacement until Reset, whatever happens to
   the builder. *)
EXTENDS Integers, Sequences, FiniteSets, TLC, Json

CONSTANTS B, T, CB, MaxOps

VARIABLES alive, inst, owner, heap, nobj, objOf, tok, hist
vars == <<alive, inst, owner, heap, nobj, objOf, tok, hist>>

Init == /\ alive = [b \in B |-> TRUE]
        /\ inst = [t \in T |-> 0]           \* object the entry jump of t goes through (0 = not mocked)
        /\ owner = [t \in T |-> ""]
        /\ heap = {} /\ nobj = 0
        /\ objOf = [b \in B |-> [t \in T |-> 0]]
        /\ tok = <<>>                       \* tok[o]: what a call reaching object o returns
        /\ hist = <<>>

Obs == [t \in T |-> IF inst[t] = 0 THEN "P" ELSE "J"]
Log(r) == hist' = Append(hist, r)

\* kind "cb": Apply(callback c);  kind "stub": Return(9000 + r)
Mock(b, t, kind, c) ==
    /\ alive[b] /\ owner[t] \in {"", b}
    /\ LET o == nobj + 1 IN
       /\ nobj' = o /\ heap' = heap \cup {o}
       /\ inst' = [inst EXCEPT ![t] = o]
       /\ owner' = [owner EXCEPT ![t] = b]
       /\ objOf' = [objOf EXCEPT ![b][t] = o]
       /\ tok' = Append(tok, IF kind = "cb" THEN "cb:" \o c ELSE "r:1")
       /\ UNCHANGED alive
       /\ IF kind = "cb" THEN Log([op |-> "Apply", b |-> b, t |-> t, c |-> c, via |-> "lookup", obs |-> [Obs EXCEPT ![t] = "J"], panic |-> ""])
                         ELSE Log([op |-> "Return", b |-> b, t |-> t, rs |-> <<1>>, via |-> "lookup", obs |-> [Obs EXCEPT ![t] = "J"], panic |-> ""])

Reset(b) ==
    /\ alive[b]
    /\ inst' = [t \in T |-> IF owner[t] = b THEN 0 ELSE inst[t]]
    /\ UNCHANGED <<alive, owner, heap, nobj, objOf, tok>>       \* (a target stays with the builder that first mocked it: the
                                                                \*  statements speak of builders over disjoint targets, cf. C11)
    /\ Log([op |-> "Reset", b |-> b, obs |-> [t \in T |-> IF owner[t] = b \/ inst[t] = 0 THEN "P" ELSE "J"], panic |-> ""])

Drop(b) ==
    /\ alive[b] /\ alive' = [alive EXCEPT ![b] = FALSE]
    /\ UNCHANGED <<inst, owner, heap, nobj, objOf, tok>>
    /\ Log([op |-> "Drop", b |-> b, obs |-> Obs, panic |-> ""])

Reachable == ({inst[t] : t \in T} \ {0}) \cup ({objOf[b][t] : b \in {x \in B : alive[x]}, t \in T} \ {0})
GC == /\ heap' = heap \cap Reachable
      /\ UNCHANGED <<alive, inst, owner, nobj, objOf, tok>>
      /\ Log([op |-> "GC", obs |-> Obs, panic |-> ""])

Call(t) ==
    /\ UNCHANGED <<alive, inst, owner, heap, nobj, objOf, tok>>
    /\ Log([op |-> "Call", t |-> t, a |-> 0,
            res |-> IF inst[t] = 0 THEN "orig" ELSE tok[inst[t]],
            ires |-> IF inst[t] = 0 THEN "orig" ELSE IF inst[t] \in heap THEN tok[inst[t]] ELSE "crash",
            obs |-> Obs, panic |-> ""])

Finish == Len(hist) = MaxOps /\ hist' = Append(hist, [op |-> "End"]) /\ UNCHANGED <<alive, inst, owner, heap, nobj, objOf, tok>>
Next == \/ Finish
        \/ /\ Len(hist) < MaxOps
           /\ \/ \E b \in B, t \in T, k \in {"cb", "stub"}, c \in CB : Mock(b, t, k, c)
              \/ \E b \in B : Reset(b) \/ Drop(b)
              \/ GC
              \/ \E t \in T : Call(t)
Spec == Init /\ [][Next]_vars

NoDangling == \A t \in T : inst[t] = 0 \/ inst[t] \in heap
CallsConform == (Len(hist) > 0 /\ hist[Len(hist)].op = "Call") => hist[Len(hist)].ires = hist[Len(hist)].res
View == <<alive, inst, owner, heap, nobj, objOf, tok, Len(hist)>>
Emit == Len(hist) = MaxOps + 1 => PrintT(ToJson(SubSeq(hist, 1, MaxOps)))
=============================================================================
