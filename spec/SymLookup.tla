------------------------------- MODULE SymLookup -------------------------------
(* C10: looking up functions and package variables by fully-qualified name (internal/unexports2).
   Link mode decides which tables of the executable can be read:
       default   go test's default link: pclntab readable, ELF .symtab absent
       symtab    -ldflags=-s=false: pclntab and .symtab readable
       stripped  -ldflags='-s -w': pclntab readable, no .symtab
       pie       -buildmode=pie: the section goom looks for is not there, the table load fails
       piestripped  -buildmode=pie -ldflags='-s -w': neither the section nor the ELF symbols
       external  -ldflags='-s=false -linkmode=external' (what cgo packages get): tables readable; the C start-up code comes
                 first in .text, so the pclntab-derived entries are off by a constant that goom measures at an anchor function
       externalstripped  -ldflags='-s -w -linkmode=external': the constant offset of external linking WITHOUT the ELF
                 symbols: the anchor variable is not found, the anchor function is - the function slide must still be measured
   The answers must not depend on the ORDER of lookups (which kind of symbol the process looks up first): every mode
   with readable variables is run twice, the second time with a variable as the very first lookup.
   MECHANISM (symbols.go / unexports2.go): loadSymbolTable once (sticky error); initAlignmentFunc computes the
   function slide from an anchor function and the variable slide from an anchor variable (returns early, leaving
   both at 0, if the anchor function is missing; leaves the variable slide at 0 if the anchor variable is
   missing); a lookup is table[name] + slide or an error.
   REQUIREMENT: for a name present in a readable table the exact run-time address; an error - never another
   symbol's address - for absent names or unreadable tables. *)
EXTENDS Integers, Sequences, TLC

Modes == {"default", "symtab", "stripped", "pie", "piestripped", "external", "externalstripped", "pieexternal"}
Pie(m) == m \in {"pie", "piestripped", "pieexternal"}     \* pieexternal: -buildmode=pie -linkmode=external
Kinds == {"func", "var"}
NameClasses == {"present", "absent"}

FuncTable(m) == ~Pie(m)                        \* pclntab readable
VarTable(m) == m \in {"symtab", "external"}                     \* ELF symbols readable (and the load as a whole succeeded)
Slide(m) == IF Pie(m) THEN 4096 ELSE IF m \in {"external", "externalstripped"} THEN 256 ELSE 0       \* run-time minus file address

\* mechanism
Loaded(m) == FuncTable(m)
FuncSlideKnown(m) == Loaded(m)                                   \* anchor function is always linked in
VarSlideKnown(m) == Loaded(m) /\ VarTable(m)                     \* anchor variable needs the ELF symbols
ImplLookup(m, k, nc) ==
    IF ~Loaded(m) THEN "error"
    ELSE IF k = "func" THEN (IF nc = "present" THEN (IF FuncSlideKnown(m) THEN "exact" ELSE "off-by-slide") ELSE "error")
    ELSE IF ~VarTable(m) \/ nc = "absent" THEN "error"
    ELSE IF VarSlideKnown(m) THEN "exact" ELSE "off-by-slide"

\* requirement
ReqLookup(m, k, nc) ==
    IF nc = "absent" THEN {"error"}
    ELSE IF (k = "func" /\ FuncTable(m)) \/ (k = "var" /\ VarTable(m)) THEN {"exact"}
    ELSE {"error"}

Conforms == \A m \in Modes, k \in Kinds, nc \in NameClasses : ImplLookup(m, k, nc) \in ReqLookup(m, k, nc)

\* judge of a recorded lookup {mode, kind, nc ("present"/"absent"), found, delta}
Outcome(e) == IF ~e.found THEN "error" ELSE IF e.delta = 0 THEN "exact" ELSE "wrong-address"
\* the record carries what the binary really contains (functab: a section named .gopclntab exists; vartab: ELF
\* symbols exist) - `go test -c` without flags keeps the ELF symbols, plain `go test` does not
ReqFacts(e) == IF e.nc = "absent" THEN {"error"}
               ELSE IF ~e.functab THEN {"error", "exact"}        \* the whole load fails (an exact answer would mean the table
                                                                   \* was readable after all; a wrong address is never acceptable)
               ELSE IF e.kind = "func" \/ e.vartab THEN {"exact"} ELSE {"error"}
Judge(e) == IF Outcome(e) \in ReqFacts(e) THEN "ok" ELSE "V:" \o Outcome(e)
=============================================================================
