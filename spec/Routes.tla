--------------------------------- MODULE Routes ---------------------------------
(* C12, "the target always behaves according to the most recent instruction given through ANY of those handles":
   one builder, one target - the pointer-receiver method F of struct S - reached through TWO routes of the API,
       r1   b.Struct(&S{}).Method("F")
       r2   b.Func(ptr-S.F)                 (a method expression)
   i.e. two mockers of one builder on one machine function, each with a patch guard of its own.
     Apply(r)    callback through route r                       -> the target runs that callback
     Return(r)   stub through route r (only when r holds no stub: a bare Return on a stub extends it, Goom.tla / C05)
     Cancel(r)   the mocker of route r is cancelled (only while it is in force) -> the target is the original again, whatever
                 the other route installed before; the handle is dropped, the next use of r asks the builder again
     Reset       everything the builder holds is taken back
     Call        the target is called
   The requirement is the statement itself (exp = effect of the most recent instruction); what is checked is the real library:
   after EVERY step the target is called and its 13 entry bytes are inspected. *)
EXTENDS Integers, Sequences, TLC, Json
CONSTANTS R, MaxOps
VARIABLES st, exp, nid, hist
vars == <<st, exp, nid, hist>>
Init == st = [r \in R |-> "none"] /\ exp = "orig" /\ nid = 0 /\ hist = <<>>
Log(r) == hist' = Append(hist, r @@ [exp |-> exp', entry |-> IF exp' = "orig" THEN "P" ELSE "J"])
Apply(r) == /\ nid' = nid + 1 /\ st' = [st EXCEPT ![r] = "cb"] /\ exp' = "cb:" \o ToString(nid + 1)
            /\ Log([op |-> "Apply", r |-> r, id |-> nid + 1])
Return(r) == /\ st[r] # "stub"
             /\ nid' = nid + 1 /\ st' = [st EXCEPT ![r] = "stub"] /\ exp' = "r:" \o ToString(nid + 1)
             /\ Log([op |-> "Return", r |-> r, id |-> nid + 1])
Cancel(r) == /\ st[r] \in {"cb", "stub"}
             /\ st' = [st EXCEPT ![r] = "cancelled"] /\ exp' = "orig" /\ UNCHANGED nid
             /\ Log([op |-> "Cancel", r |-> r])
Reset == /\ st' = [r \in R |-> "none"] /\ exp' = "orig" /\ UNCHANGED nid
         /\ Log([op |-> "Reset"])
Finish == Len(hist) = MaxOps /\ hist' = Append(hist, [op |-> "End"]) /\ UNCHANGED <<st, exp, nid>>
Next == Finish \/ (Len(hist) < MaxOps /\ ((\E r \in R : Apply(r) \/ Return(r) \/ Cancel(r)) \/ Reset))
Spec == Init /\ [][Next]_vars
\* a route that is in force implies nothing about the target (the other route may have been cancelled since); but after Reset
\* or a Cancel the target is the original
OrigAfterTakeBack == (hist # <<>> /\ hist[Len(hist)].op \in {"Cancel", "Reset"}) => exp = "orig"
View == <<st, exp, nid, Len(hist)>>
Emit == Len(hist) = MaxOps + 1 => PrintT(ToJson(SubSeq(hist, 1, MaxOps)))
=============================================================================
