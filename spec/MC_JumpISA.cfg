SPECIFICATION Spec
CONSTANTS LaneVals = {0, 1, 255, 256, 32767, 32768, 65535}
INVARIANT ThroughX86
INVARIANT ThroughA64
INVARIANT ToAbs
INVARIANT Distinguishes
CHECK_DEADLOCK FALSE
