---- MODULE MC_A64Format ----
(* self-test of the model against hand-computed vectors from the ARM ARM encoding tables *)
EXTENDS A64Format
VARIABLE x
Init == x = 0
Next == UNCHANGED x
Spec == Init /\ [][Next]_x
W(b0, b1, b2, b3) == <<b0, b1, b2, b3>>
Vectors ==
  /\ Class(W(0, 0, 0, 20)) = [cls |-> "b", op |-> "B", has |-> TRUE, disp |-> 0]                    \* 14000000 b .
  /\ Class(W(255, 255, 255, 23)).disp = -4                                                         \* 17ffffff b .-4
  /\ Class(W(1, 0, 0, 148)) = [cls |-> "b", op |-> "BL", has |-> TRUE, disp |-> 4]                   \* 94000001 bl .+4
  /\ Class(W(0, 0, 0, 22)).disp = -134217728                                                       \* 16000000 b .-2^27
  /\ Class(W(64, 0, 0, 84)) = [cls |-> "bcond", op |-> "B", has |-> TRUE, disp |-> 8]               \* 54000040 b.eq .+8
  /\ Class(W(225, 255, 255, 84)).disp = -4                                                         \* 54ffffe1 b.ne .-4
  /\ Class(W(80, 0, 0, 84)).cls = "bccond"
  /\ Class(W(32, 0, 0, 52)) = [cls |-> "cb", op |-> "CBZ", has |-> TRUE, disp |-> 4]                \* 34000020 cbz w0,.+4
  /\ Class(W(0, 0, 128, 181)) = [cls |-> "cb", op |-> "CBNZ", has |-> TRUE, disp |-> -1048576]      \* b5800000 cbnz x0,.-2^20
  /\ Class(W(32, 0, 0, 54)) = [cls |-> "tb", op |-> "TBZ", has |-> TRUE, disp |-> 4]                \* 36000020 tbz w0,#0,.+4
  /\ Class(W(0, 0, 4, 55)).disp = -32768                                                           \* 37040000 tbnz ..,.-2^15
  /\ Class(W(0, 0, 0, 48)) = [cls |-> "adr", op |-> "ADR", has |-> TRUE, disp |-> 1]                \* 30000000 adr x0,.+1
  /\ Class(W(0, 0, 128, 144)) = [cls |-> "adr", op |-> "ADRP", has |-> TRUE, disp |-> -1048576]     \* 90800000 adrp x0,.-2^20 pages
  /\ Class(W(32, 0, 0, 88)) = [cls |-> "ldrlit", op |-> "LDR", has |-> TRUE, disp |-> 4]            \* 58000020 ldr x0,.+4
  /\ Class(W(0, 0, 0, 152)).op = "LDRSW" /\ Class(W(0, 0, 0, 216)).op = "PRFM" /\ Class(W(0, 0, 0, 220)).op = ""
  /\ Class(W(64, 1, 31, 214)).op = "BR" /\ Class(W(192, 3, 95, 214)).op = "RET" /\ Class(W(0, 2, 63, 214)).op = "BLR"
  /\ Class(W(0, 0, 0, 2)).cls = "unallocated" /\ Class(W(0, 0, 0, 6)).cls = "unallocated"
  /\ Class(W(31, 32, 3, 213)).cls = "other"                                                        \* d503201f nop
Inv == Vectors
====
