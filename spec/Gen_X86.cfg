SPECIFICATION Spec
CONSTANTS
  Rex = {0, 72, 65}
  ModRMs = {0, 4, 5, 64, 68, 128, 132, 192, 193}
  Sibs = {36, 37, 229}
  Pfx = {0, 102}
CHECK_DEADLOCK FALSE
INVARIANT ModelSane
