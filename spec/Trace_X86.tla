------------------------------ MODULE Trace_X86 ------------------------------
(* Direction B for C16: records {src, b, n, err, len, rel, off, op, panic} produced by goom's bundled
   x86-64 decoder are judged by the format model X86Format.
     totality   : no record carries a panic; every success has len in 1..15, len <= bytes supplied,
                  and its PC-relative field inside the instruction;
     exactness  : on the model's claimed domain (signature in Core = opcode-map/opcode//reg
                  combinations that occur in compiler-generated code and that the pinned decoder and the
                  model agree on) the decoder must succeed with the model's length, PC-relative field
                  position and width, and branch class. *)
EXTENDS X86Format, X86Core, Json, TLC, FiniteSets
CONSTANT TraceFile
Trace == ndJsonDeserialize(TraceFile)
VARIABLES l, bad, tally

Jcc == {"JA","JAE","JB","JBE","JE","JNE","JG","JGE","JL","JLE","JO","JNO","JS","JNS","JP","JNP"}
OpClass(op) == IF op = "JMP" THEN "jmp" ELSE IF op \in Jcc THEN "jcc" ELSE IF op = "CALL" THEN "call"
               ELSE IF op = "RET" THEN "ret" ELSE "other"
Min(a, c) == IF a < c THEN a ELSE c

R(k, what) == [k |-> k, what |-> what]
\* agreement with the reference decoder on compiler-emitted instructions (records of TestVerifX86Diff): boundary, opcode,
\* position and width of the PC-relative field
SameFacts(e) == /\ e.panic = "" /\ e.rpanic = "" /\ e.err = e.rerr
                /\ (~e.err => /\ e.len = e.rlen /\ e.op = e.rop /\ e.rel = e.rrel /\ (e.rel # 0 => e.off = e.roff))
CheckDiff(e) == IF e.panic # "" THEN R("V", "panic")
                ELSE IF SameFacts(e) THEN (IF e.agree THEN R("ok", "agree-with-reference") ELSE R("V", "driver-and-judge-disagree"))
                ELSE IF e.err # e.rerr THEN R("V", "rejects-an-instruction-the-toolchain-emits")
                ELSE IF e.len # e.rlen THEN R("V", "boundary-differs-from-reference")
                ELSE IF e.op # e.rop THEN R("V", "opcode-differs-from-reference")
                ELSE R("V", "pcrel-field-differs-from-reference")
CheckDSum(e) == IF e.agree + e.differ # e.uniq THEN R("V", "sweep-count") ELSE IF e.differ # 0 THEN R("V", "disagrees-with-reference") ELSE R("ok", "sum")
Check(e) ==
  IF e.src = "diff" THEN CheckDiff(e)
  ELSE IF e.src = "dsum" THEN CheckDSum(e)
  ELSE IF e.panic # "" THEN R("V", "panic")
  ELSE IF e.changed THEN R("V", "answer-depends-on-what-was-decoded-before")
  ELSE IF ~e.err /\ ~(e.len >= 1 /\ e.len <= 15 /\ e.len <= e.n) THEN R("V", "length-out-of-range")
  ELSE IF ~e.err /\ e.rel # 0 /\ ~(e.off >= 1 /\ e.off + e.rel <= e.len) THEN R("V", "pcrel-outside-instruction")
  ELSE IF Len(e.b) = 0 THEN R("ok", "empty")
  ELSE LET n == Min(e.n, Len(e.b)) IN
       LET d == Decode(e.b, n) IN
       LET core == Sig(e.b, n) \in Core /\ (e.src = "text" \/ Generalises(Sig(e.b, n))) IN
       IF d.cls \in {"vex", "outside"} \/ ~core THEN R("out", "outside-model")
       ELSE IF e.err THEN (IF d.ok /\ d.len <= Min(n, 15) THEN R("V", "decoder-rejects-core-encoding") ELSE R("ok", "both-reject"))
       ELSE IF ~d.ok THEN R("gap", "model-rejects")
       ELSE IF d.len # e.len THEN R("V", "length")
       ELSE IF d.rel # e.rel \/ (d.rel # 0 /\ d.off # e.off) THEN R("V", "pcrel-field")
       ELSE IF d.rel # 0 /\ d.cls \in {"jmp", "jcc", "call"} /\ OpClass(e.op) # d.cls THEN R("V", "branch-class")
       ELSE R("ok", "agree")

Init == l = 1 /\ bad = <<>> /\ tally = [ok |-> 0, outside |-> 0, gap |-> 0]
Next == /\ l <= Len(Trace)
        /\ LET c == Check(Trace[l]) IN
           /\ bad' = IF c.k = "V" /\ Len(bad) < 25 THEN Append(bad, <<c.what, l>>) ELSE bad
           /\ tally' = [ok |-> tally.ok + (IF c.k = "ok" THEN 1 ELSE 0),
                        outside |-> tally.outside + (IF c.k = "out" THEN 1 ELSE 0),
                        gap |-> tally.gap + (IF c.k = "gap" THEN 1 ELSE 0)]
        /\ l' = l + 1
Spec == Init /\ [][Next]_<<l, bad, tally>>
Done == (l = Len(Trace) + 1) => PrintT(ToJson([summary |-> TRUE, tally |-> tally, bad |-> bad]))
Accepted == TLCGet("stats").diameter - 1 = Len(Trace)
=============================================================================
