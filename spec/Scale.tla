--------------------------------- MODULE Scale ---------------------------------
(* SCALE (C02 / C04 / C05 / C12): the requirements of Goom.tla on MANY objects at once - the regime in which tables grow,
   maps are rehashed, several targets share a page and "the first / the last / the 17th" element takes another path.
     N targets S1..SN (consecutive small functions: dozens per page), mocked in GROUPS
       MockShared(g, kind, via)   the shared builder b1 mocks every target of group g (Apply with a closure / Return stub),
                                  through a fresh lookup or through the handle kept from the latest lookup
       MockFresh(g, kind, via)    every target of g gets (or re-uses) a builder of its OWN
       CancelShared(g)       the cached mockers of b1 for the targets of g are cancelled one by one
       ResetShared           b1.Reset(): every target b1 holds is original again - and no other
       ResetFresh(g)         Reset of the own builders of the targets of g
     one target C with a conditional stub of n conditions (n from CondSizes: around the sizes where slices grow)
       CondStub(n)           default + When(k).Return(v_k) for k = 1..n on b1;   CallC: every argument 0..n+1
     one target Q with a sequenced stub of n results (SeqSizes)
       SeqStub(n)            Returns(v_1..v_n) on b1;   CallQ(m): the next m calls
   The requirement is elementary (repl[i] = the id of the last instruction that targets i, 0 after its owner's reset; the
   k-th condition selects v_k; the j-th call receives the min(j, n)-th result): what is checked is the real library,
   (TLCEval throughout: in simulation mode TLC keeps function-valued next-state expressions as lazy closures that chain from
   step to step; forcing them keeps a step at constant cost.)
   at every step: every target called, every entry's bytes, the image outside the mocked entries, page permissions. *)
EXTENDS Integers, Sequences, FiniteSets, TLC, Json
CONSTANTS N, GroupNames, Groups, CondSizes, SeqSizes, MaxOps,     \* Groups: [GroupNames -> SUBSET 1..N]
          Obj, HasCancel
\* Obj: [1..N -> object]: the OBJECT a target belongs to. Functions: every target is its own object. Interface mocks
\* (instance ScaleI): target = (variable, method), object = the variable; builders own objects; a method of a mocked variable
\* that is not itself mocked answers "method not implements" (exp -1).
VARIABLES own, ever, repl, lk, nid, cstub, qstub, qpos, hist
\* lk[i]: kind of the instruction in force on target i (a bare Return on a handle that already holds a Return stub EXTENDS its
\* sequence - Goom.tla / C05 - and is kept out of this spec: the action is not enabled)
\* ever[o]: which kind of builder has EVER held object o. The properties speak of builders with disjoint targets (C11) and of what
\* a Reset does to the resetting builder's own targets (C02); a target that passes from one builder to another is outside them
\* (goom: the first builder's next Reset cancels its stale mocker again and removes the second builder's patch), so an object
\* stays with the kind of builder that first mocked it.
vars == <<own, ever, repl, lk, nid, cstub, qstub, qpos, hist>>
T == 1..N
Objs == {Obj[i] : i \in T}
Of(S) == {Obj[i] : i \in S}
None == [id |-> 0, n |-> 0]

Init == /\ own = [o \in Objs |-> "none"] /\ ever = [o \in Objs |-> "none"] /\ repl = [i \in T |-> 0] /\ lk = [i \in T |-> "none"] /\ nid = 0
        /\ cstub = None /\ qstub = None /\ qpos = 0 /\ hist = <<>>

Ids(S) == TLCEval([i \in T |-> i \in S])            \* membership mask over 1..N (a sequence of booleans)
OIds(O) == [o \in 1..Cardinality(Objs) |-> o \in O]      \* (objects are numbered 1..K)
\* what every target must answer, as a function of the NEW repl value f. f is passed as a state-level VALUE: TLC caches LET
\* definitions only when they contain no prime - with repl' inside, the set of mocked objects would be rebuilt for every target
ExpOf(f) == LET M == {j \in T : f[j] # 0}                      \* mocked targets
                MO == Of(M)                                      \* objects with at least one mocked target
            IN [i \in {j \in T \ M : Obj[j] \in MO} |-> -1] @@ f         \* (a function over 1..N is a sequence)
Rec(r, f) == hist' = Append(hist, r @@ [exp |-> ExpOf(f), cn |-> cstub'.n, cid |-> cstub'.id, qn |-> qstub'.n, qid |-> qstub'.id])

MockShared(g, kind, via) ==
    LET G == TLCEval(Groups[g]) OG == TLCEval(Of(G))
        nr == TLCEval([i \in G |-> nid + 1] @@ repl) IN                     \* (@@ is implemented natively: left operand wins)
    /\ {i \in G : ever[Obj[i]] = "fresh"} = {}                \* disjoint builders (C11)   (sets, not \A: TLC unfolds \A recursively)
    /\ (kind = "return" => {i \in G : lk[i] = "return"} = {})
    /\ lk' = TLCEval([i \in G |-> kind] @@ lk)
    /\ nid' = nid + 1
    /\ own' = TLCEval([o \in OG |-> "shared"] @@ own) /\ ever' = TLCEval([o \in OG |-> "shared"] @@ ever)
    /\ repl' = nr
    /\ UNCHANGED <<cstub, qstub, qpos>>
    /\ Rec([op |-> "MockShared", g |-> g, is |-> Ids(G), kind |-> kind, via |-> via, id |-> nid + 1], nr)
MockFresh(g, kind, via) ==
    LET G == TLCEval(Groups[g]) OG == TLCEval(Of(G))
        nr == TLCEval([i \in G |-> nid + 1] @@ repl) IN
    /\ {i \in G : ever[Obj[i]] = "shared"} = {}
    /\ (kind = "return" => {i \in G : lk[i] = "return"} = {})
    /\ lk' = TLCEval([i \in G |-> kind] @@ lk)
    /\ nid' = nid + 1
    /\ own' = TLCEval([o \in OG |-> "fresh"] @@ own) /\ ever' = TLCEval([o \in OG |-> "fresh"] @@ ever)
    /\ repl' = nr
    /\ UNCHANGED <<cstub, qstub, qpos>>
    /\ Rec([op |-> "MockFresh", g |-> g, is |-> Ids(G), kind |-> kind, via |-> via, id |-> nid + 1], nr)
CancelShared(g) ==
    LET G == TLCEval(Groups[g])
        S == TLCEval({i \in G : own[Obj[i]] = "shared" /\ repl[i] # 0})
        nr == TLCEval([i \in S |-> 0] @@ repl) IN        \* (own stays "shared": the cancelled mocker is still b1's)
    /\ HasCancel /\ S # {}
    /\ repl' = nr
    /\ lk' = TLCEval([i \in S |-> "none"] @@ lk)
    /\ UNCHANGED <<own, ever, nid, cstub, qstub, qpos>>
    /\ Rec([op |-> "CancelShared", g |-> g, is |-> Ids(S)], nr)
ResetShared ==
    LET nr == TLCEval([i \in T |-> IF own[Obj[i]] = "shared" THEN 0 ELSE repl[i]]) IN
    /\ own' = TLCEval([o \in Objs |-> IF own[o] = "shared" THEN "none" ELSE own[o]])
    /\ repl' = nr
    /\ lk' = TLCEval([i \in T |-> IF own[Obj[i]] = "shared" THEN "none" ELSE lk[i]])
    /\ cstub' = None /\ qstub' = None /\ qpos' = 0
    /\ UNCHANGED <<nid, ever>>
    /\ Rec([op |-> "ResetShared"], nr)
ResetFresh(g) ==
    LET O == TLCEval({o \in Of(Groups[g]) : own[o] = "fresh"})
        S == TLCEval({i \in T : Obj[i] \in O})
        nr == TLCEval([i \in S |-> 0] @@ repl) IN
    /\ O # {}
    /\ own' = TLCEval([o \in O |-> "none"] @@ own)
    /\ repl' = nr
    /\ lk' = TLCEval([i \in S |-> "none"] @@ lk)
    /\ UNCHANGED <<nid, ever, cstub, qstub, qpos>>
    /\ Rec([op |-> "ResetFresh", g |-> g, is |-> Ids(S), os |-> OIds(O)], nr)

\* conditional stub of n conditions on target C: argument a in 1..n selects v_a = id * 100000 + a, everything else the default id * 100000
CondStub(n) ==
    /\ cstub = None
    /\ nid' = nid + 1 /\ cstub' = [id |-> nid + 1, n |-> n]
    /\ UNCHANGED <<own, ever, repl, lk, qstub, qpos>>
    /\ Rec([op |-> "CondStub", n |-> n, id |-> nid + 1], repl)
CVal(a) == IF cstub.id = 0 THEN 77000 + a ELSE IF a \in 1..cstub.n THEN cstub.id * 100000 + a ELSE cstub.id * 100000
CallC == /\ CondSizes # {}
         /\ UNCHANGED <<own, ever, repl, lk, nid, cstub, qstub, qpos>>
         /\ Rec([op |-> "CallC", expc |-> [j \in 1..(cstub.n + 2) |-> CVal(j - 1)]], repl)         \* arguments 0..n+1

\* sequenced stub of n results on target Q: the j-th call receives v_min(j, n) = id * 100000 + min(j, n)
SeqStub(n) ==
    /\ qstub = None
    /\ nid' = nid + 1 /\ qstub' = [id |-> nid + 1, n |-> n] /\ qpos' = 0
    /\ UNCHANGED <<own, ever, repl, lk, cstub>>
    /\ Rec([op |-> "SeqStub", n |-> n, id |-> nid + 1], repl)
MinOf(a, b) == IF a < b THEN a ELSE b
QVal(j) == IF qstub.id = 0 THEN 88000 + 7 ELSE qstub.id * 100000 + MinOf(j, qstub.n)
CallQ(m) == /\ SeqSizes # {}
            /\ qpos' = qpos + m
            /\ UNCHANGED <<own, ever, repl, lk, nid, cstub, qstub>>
            /\ Rec([op |-> "CallQ", m |-> m, expq |-> [j \in 1..m |-> QVal(qpos + j)]], repl)

Finish == Len(hist) = MaxOps /\ hist' = Append(hist, [op |-> "End"]) /\ UNCHANGED <<own, ever, repl, lk, nid, cstub, qstub, qpos>>
\* via: "lookup" = the mocker is asked for again (b.Func(f), b.Var(&v) ...), "held" = the handle kept from the target's LATEST lookup in that
\* builder (the one the builder itself still refers to) is used again - also after it was cancelled or its builder reset
\* (C12: a handle continues the configuration; handles that a later lookup has superseded are stale and not used)
Step == \/ \E g \in GroupNames, k \in {"apply", "return"}, via \in {"lookup", "held"} : MockShared(g, k, via) \/ MockFresh(g, k, via)
        \/ \E g \in GroupNames : CancelShared(g) \/ ResetFresh(g)
        \/ ResetShared
        \/ \E n \in CondSizes : CondStub(n)
        \/ \E n \in SeqSizes : SeqStub(n)
        \/ CallC \/ (\E m \in {1, 3, 20} : CallQ(m))
Next == Finish \/ (Len(hist) < MaxOps /\ Step)
Spec == Init /\ [][Next]_vars

\* a reset gives back exactly what its builder holds
ResetExact == [][(Len(hist') > Len(hist) /\ hist'[Len(hist')].op = "ResetShared") =>
                   \A i \in T : (own[Obj[i]] = "shared" => repl'[i] = 0) /\ (own[Obj[i]] # "shared" => repl'[i] = repl[i])]_vars
OwnedIffMocked == \A i \in T : own[Obj[i]] = "none" => repl[i] = 0
View == <<own, ever, repl, lk, cstub, qstub, qpos, Len(hist)>>
Emit == Len(hist) = MaxOps + 1 => PrintT(ToJson(SubSeq(hist, 1, MaxOps)))
=============================================================================
