SPECIFICATION Spec
CONSTANTS
  B = {"b1"}
  T = {"f", "g"}
  CB = {"c1"}
  MaxOps = 4
CONSTRAINT Emit
CHECK_DEADLOCK FALSE
