SPECIFICATION TSpec
CONSTANTS
  G = {0, 1, 2, 3}
  N = 4
  K = 100000
  TraceFile = "trace.ndjson"
CONSTRAINT HighWater
VIEW TView
POSTCONDITION Accepted
CHECK_DEADLOCK FALSE
