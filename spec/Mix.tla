----------------------------------- MODULE Mix -----------------------------------
(* One builder holding mocks of different kinds at once: a function mock, a variable mock and an interface-variable
   mock (Builder.mockers is ONE map of heterogeneous Mocker objects; Reset cancels them in map order, each through its
   own Cancel).  The kinds are specified separately in Goom.tla, VarMock.tla and Iface.tla; this module specifies their
   coexistence: every instruction affects its own target only, and Reset restores ALL of them, whatever was or was not
   configured on the others (a mocker that was looked up but never applied / never set included).

   f   function target:      "orig" | "cb" (Apply) | "r" (Return 1)        fl: a mocker for f was looked up
   x   variable:             "i" (initial) | "a" | "b"                     xl: ...
   i   interface variable:   "orig" | "fake" with imock[m] for m in {"A", "C"}
   Each step is logged in the record format of the family's world (fam = life / var / iface), so that the three
   replay worlds can be driven through one shared builder. *)
EXTENDS Integers, Sequences, FiniteSets, TLC, Json

CONSTANT MaxOps
VARIABLES f, x, im, nid, hist
vars == <<f, x, im, nid, hist>>

Init == f = "orig" /\ x = "i" /\ im = [m \in {"A", "C"} |-> 0] /\ nid = 0 /\ hist = <<>>
Log(r) == hist' = Append(hist, r)

Faked(m) == m["A"] # 0 \/ m["C"] # 0
\* every step is observed through all three worlds: an instruction affects its own target only
Full(fv, xv, m) == [k \in {"f", "ph:f", "x1", "i1"} |->
                      IF k = "f" THEN (IF fv = "orig" THEN "P" ELSE "J") ELSE IF k = "ph:f" THEN "P" ELSE IF k = "x1" THEN xv
                      ELSE (IF Faked(m) THEN "fake" ELSE "orig")]
ObsF(fv) == Full(fv, x, im)
ObsX(xv) == Full(f, xv, im)
ObsI(m) == Full(f, x, m)

FApply == /\ f' = "cb" /\ UNCHANGED <<x, im, nid>>
          /\ Log([fam |-> "life", op |-> "Apply", b |-> "b1", t |-> "f", c |-> "c1", via |-> "lookup", obs |-> ObsF("cb"), panic |-> ""])
FReturn == /\ f \in {"orig", "cb"}             \* (a second Return would extend the stub: Goom.tla)
           /\ f' = "r" /\ UNCHANGED <<x, im, nid>>
           /\ Log([fam |-> "life", op |-> "Return", b |-> "b1", t |-> "f", a |-> -1, rs |-> <<1>>, via |-> "lookup", obs |-> ObsF("r"), panic |-> ""])
FCancel == /\ f' = "orig" /\ UNCHANGED <<x, im, nid>>
           /\ Log([fam |-> "life", op |-> "Cancel", b |-> "b1", t |-> "f", via |-> "lookup", obs |-> ObsF("orig"), panic |-> ""])
FCall == /\ UNCHANGED <<f, x, im, nid>>
         /\ Log([fam |-> "life", op |-> "Call", t |-> "f", a |-> 0, res |-> IF f = "orig" THEN "orig" ELSE IF f = "cb" THEN "cb:c1" ELSE "r:1", alt |-> "",
                 obs |-> ObsF(f), panic |-> ""])

XSet(v) == /\ x' = v /\ UNCHANGED <<f, im, nid>>
           /\ Log([fam |-> "var", op |-> "VarSet", b |-> "b1", x |-> "x1", v |-> v, via |-> "lookup", obs |-> ObsX(v), panic |-> ""])
XCancel == /\ x' = "i" /\ UNCHANGED <<f, im, nid>>
           /\ Log([fam |-> "var", op |-> "VarCancel", b |-> "b1", x |-> "x1", via |-> "lookup", obs |-> ObsX("i"), panic |-> ""])

IMock(m) == /\ im[m] = 0                         \* (a second stub on the same method would extend it: Iface.tla)
            /\ nid' = nid + 1 /\ im' = [im EXCEPT ![m] = nid + 1] /\ UNCHANGED <<f, x>>
            /\ Log([fam |-> "iface", op |-> "Mock", b |-> "b1", v |-> "i1", m |-> m, kind |-> "stub", via |-> "lookup", id |-> nid + 1,
                    obs |-> ObsI(im'), panic |-> ""])
ICall(m) == /\ Faked(im) /\ UNCHANGED <<f, x, im, nid>>
            /\ Log([fam |-> "iface", op |-> "Call", v |-> "i1", m |-> m, a |-> 7,
                    res |-> IF im[m] = 0 THEN "panic:notimpl" ELSE "repl:" \o ToString(im[m]), obs |-> ObsI(im), panic |-> ""])

\* Builder.Reset: everything back, observed through all three worlds
Reset == /\ f' = "orig" /\ x' = "i" /\ im' = [m \in {"A", "C"} |-> 0] /\ UNCHANGED nid
         /\ Log([fam |-> "all", op |-> "Reset", b |-> "b1",
                 obs |-> [k \in {"f", "ph:f", "x1", "i1"} |-> IF k = "f" THEN "P" ELSE IF k = "ph:f" THEN "P" ELSE IF k = "x1" THEN "i" ELSE "orig"], panic |-> ""])

Finish == Len(hist) = MaxOps /\ hist' = Append(hist, [op |-> "End"]) /\ UNCHANGED <<f, x, im, nid>>
Next == \/ Finish
        \/ /\ Len(hist) < MaxOps
           /\ \/ FApply \/ FReturn \/ FCancel \/ FCall
              \/ \E v \in {"a", "b"} : XSet(v)
              \/ XCancel
              \/ \E m \in {"A", "C"} : IMock(m) \/ ICall(m)
              \/ Reset
Spec == Init /\ [][Next]_vars

\* Reset restores all kinds at once
ResetAll == [][(Len(hist') > Len(hist) /\ hist'[Len(hist')].op = "Reset") => (f' = "orig" /\ x' = "i" /\ ~Faked(im'))]_vars
View == <<f, x, im, nid, Len(hist)>>
Emit == Len(hist) = MaxOps + 1 => PrintT(ToJson(SubSeq(hist, 1, MaxOps)))
=============================================================================
