---- MODULE Trace_Reject ----
EXTENDS Reject, Json
CONSTANT TraceFile
Trace == ndJsonDeserialize(TraceFile)
VARIABLES l, bad, nok
Init == l = 1 /\ bad = <<>> /\ nok = 0
Next == /\ l <= Len(Trace)
        /\ LET v == Judge(Trace[l]) IN
           /\ bad' = IF v = "ok" \/ Len(bad) >= 40 THEN bad ELSE Append(bad, <<v, l>>)
           /\ nok' = nok + (IF v = "ok" THEN 1 ELSE 0)
        /\ l' = l + 1
Spec == Init /\ [][Next]_<<l, bad, nok>>
Done == (l = Len(Trace) + 1) => PrintT(ToJson([summary |-> TRUE, nok |-> nok, bad |-> bad]))
Accepted == TLCGet("stats").diameter - 1 = Len(Trace)
====
