------------------------------ MODULE Trace_Reloc ------------------------------
(* Direction B for C03 (relocation faithfulness).  A record is one run of goom's pure relocation
   (fixRelativeAddr + the tail-jump emitter) on one real function:
       name, d = origin - trampoline, fn = bytes of the function (first `have` bytes), size,
       out = the first 96 bytes of the placeholder READ BACK after goom's real fixOriginFuncToTrampoline ran
       (relocated prefix ++ jump back ++ untouched 0x90 filler), err = "" or the refusal.
   The function and the output are parsed with the format model X86Format (the only decoder in the
   trusted base) and the requirement of DESIGN Appendix B is evaluated predicate by predicate:
     PrefixFaithful      bytes outside PC-relative fields identical and in order (rel8 branches may be
                         widened to their rel32 form with the same condition); every PC-relative operand,
                         at its NEW address, resolves to the same absolute target
     TailJump            right after the relocated prefix a jump lands on origin + n, n = the first instruction
                         boundary >= 13 that is not followed by RET (so a wrong copied boundary shows here)
     RefuseClean         a refusal leaves the placeholder untouched
     NoBranchIntoEntry   no PC-relative branch of the part that is NOT copied targets the bytes (0, 13) that the entry
                         jump overwrites; branches between copied instructions must land on the image of their target
   plus the structural marker BackBranch (a branch to offset 0 = the patched entry; finding F5). *)
EXTENDS X86Format, TLC, Json, FiniteSets
CONSTANT TraceFile
Trace == ndJsonDeserialize(TraceFile)
VARIABLES l, tally, bad

Min(a, b) == IF a < b THEN a ELSE b
S8(x) == IF x < 128 THEN x ELSE x - 256
RelVal(b, i, w) ==   \* i = 1-based index of the first byte of the field
   IF w = 1 THEN S8(b[i])
   ELSE IF w = 4 THEN b[i] + 256 * b[i+1] + 65536 * b[i+2] + 16777216 * S8(b[i+3])
   ELSE 0
Win(b, p, size) == SubSeq(b, p + 1, Min(p + 15, size))     \* p 0-based

\* parse the function into a sequence of [p, len, rel, off, cls, tgt, ret]
RECURSIVE Parse(_, _, _, _, _)
\* cut: b is only an excerpt of the function, so a decode failure in the last 15 bytes just ends the parse
Parse(b, p, size, acc, cut) ==
   IF p >= size THEN [ok |-> TRUE, ins |-> acc]
   ELSE LET w == Win(b, p, size) IN LET d == Decode(w, Len(w)) IN
        IF ~d.ok THEN [ok |-> (cut /\ p + 15 > size /\ Len(acc) > 0), ins |-> acc]
        ELSE LET r == IF d.rel = 0 THEN 0 ELSE RelVal(w, d.off + 1, d.rel) IN
             Parse(b, p + d.len, size, Append(acc, [p |-> p, len |-> d.len, rel |-> d.rel, off |-> d.off, cls |-> d.cls,
                                                   tgt |-> p + d.len + r, ret |-> (d.len = 1 /\ w[1] = 195)]), cut)

\* the first instruction boundary >= 13 whose instruction is not RET (-1: the whole function is copied)
Copied(ins) == LET K == {k \in 1..Len(ins) : ins[k].p >= 13 /\ ~ins[k].ret} IN
               IF K = {} THEN -1 ELSE ins[CHOOSE k \in K : \A j \in K : k <= j].p
IsBranch(i) == i.cls \in {"jmp", "jcc", "call"} \/ i.rel = 1
Widen(op) == IF op = 235 THEN <<233>> ELSE IF op \in 112..127 THEN <<15, op + 16>> ELSE <<>>

\* Stage 1: lay the copied instructions out over the bytes read back: for instruction k its original offset p, its
\* offset q in the placeholder and the decoded output instruction (PC-relative ones may have been widened).
RECURSIVE Lay(_, _, _, _, _, _)
Lay(out, ins, k, n, q, acc) ==
   IF k > Len(ins) \/ ins[k].p >= n THEN [err |-> "", lay |-> acc, qend |-> q]
   ELSE LET i == ins[k] IN
     IF i.rel = 0 THEN
        IF q + i.len <= Len(out) THEN Lay(out, ins, k + 1, n, q + i.len, Append(acc, [p |-> i.p, q |-> q, olen |-> i.len, orel |-> 0, ooff |-> 0]))
        ELSE [err |-> "V:output-truncated", lay |-> acc, qend |-> q]
     ELSE LET w == SubSeq(out, q + 1, Min(q + 15, Len(out))) IN
          IF Len(w) = 0 THEN [err |-> "V:output-truncated", lay |-> acc, qend |-> q] ELSE
          LET o == Decode(w, Len(w)) IN
          IF ~o.ok \/ o.rel = 0 THEN [err |-> "V:output-not-decodable", lay |-> acc, qend |-> q]
          ELSE Lay(out, ins, k + 1, n, q + o.len, Append(acc, [p |-> i.p, q |-> q, olen |-> o.len, orel |-> o.rel, ooff |-> o.off]))

\* Stage 2: every copied instruction is faithful.  A PC-relative operand must resolve, at its NEW address, to the same
\* absolute target if the target lies outside the copied prefix, and to the IMAGE of its target instruction if it lies inside.
QOf(lay, t) == LET K == {k \in 1..Len(lay) : lay[k].p = t} IN IF K = {} THEN -1 ELSE lay[CHOOSE k \in K : TRUE].q
RECURSIVE Faithful(_, _, _, _, _, _, _)
Faithful(fn, out, ins, lay, k, n, d) ==
   IF k > Len(lay) THEN "ok"
   ELSE LET i == ins[k] IN LET ly == lay[k] IN
     IF i.rel = 0 THEN
        (IF SubSeq(out, ly.q + 1, ly.q + i.len) = SubSeq(fn, i.p + 1, i.p + i.len) THEN Faithful(fn, out, ins, lay, k + 1, n, d) ELSE "V:copied-bytes-differ")
     ELSE LET w == SubSeq(out, ly.q + 1, ly.q + ly.olen) IN
          LET s == RelVal(w, ly.ooff + 1, ly.orel) IN
          LET inside == i.tgt >= 0 /\ i.tgt < n IN
          LET want == IF inside THEN QOf(lay, i.tgt) - (ly.q + ly.olen)
                      ELSE (i.tgt - i.p - i.len) + d + (i.p - ly.q) + (i.len - ly.olen) IN
          LET pre_ok == \/ SubSeq(w, 1, ly.ooff) = SubSeq(fn, i.p + 1, i.p + i.off)
                        \/ (i.rel = 1 /\ ly.orel = 4 /\ SubSeq(w, 1, ly.ooff) = SubSeq(fn, i.p + 1, i.p + i.off - 1) \o Widen(fn[i.p + i.off])) IN
          LET post_ok == SubSeq(w, ly.ooff + ly.orel + 1, ly.olen) = SubSeq(fn, i.p + i.off + i.rel + 1, i.p + i.len) IN
          IF ~pre_ok THEN "V:opcode-bytes-differ"
          ELSE IF ~post_ok THEN "V:bytes-after-pcrel-field-lost"
          ELSE IF inside /\ i.tgt # 0 /\ QOf(lay, i.tgt) < 0 THEN "V:branch-into-the-middle-of-a-copied-instruction"
          ELSE IF inside /\ i.tgt = 0 THEN Faithful(fn, out, ins, lay, k + 1, n, d)      \* target = entry: the BackBranch marker (F5), judged elsewhere
          ELSE IF s # want THEN (IF inside THEN "V:displacement-inside-prefix" ELSE IF ly.q # i.p THEN "V:displacement-ignores-growth" ELSE "V:displacement")
          ELSE Faithful(fn, out, ins, lay, k + 1, n, d)

\* tail jump: right after the relocated prefix (position q in the bytes read back from the placeholder) there must be
\* E9 rel32 landing on origin + n - unless nothing remains (n >= size) or the last copied instruction never falls through
\* (RET / unconditional JMP), in which case whatever follows is never executed.
\* Far origins (more than 2 GiB from the placeholder; addresses do not fit TLC's integers: 16-bit lanes, low first): the jump
\* back is the absolute form  48 BA imm64 ; FF E2  (mov rdx, imm64 ; jmp rdx) with imm64 = origin + n.
LaneAdd(ls, n) == LET a == ls[1] + n IN
                  LET b == ls[2] + (a \div 65536) IN
                  LET c == ls[3] + (b \div 65536) IN
                  <<a % 65536, b % 65536, c % 65536, (ls[4] + (c \div 65536)) % 65536>>
Imm64Lanes(b, i) == <<b[i] + 256 * b[i+1], b[i+2] + 256 * b[i+3], b[i+4] + 256 * b[i+5], b[i+6] + 256 * b[i+7]>>
TailOk(e, q, n, lastTerminal) ==
    IF n >= e.size \/ lastTerminal THEN TRUE
    ELSE IF e.far THEN /\ q + 12 <= Len(e.out) /\ e.out[q + 1] = 72 /\ e.out[q + 2] = 186 /\ e.out[q + 11] = 255 /\ e.out[q + 12] = 226
                       /\ Imm64Lanes(e.out, q + 3) = LaneAdd(e.olanes, n)
    ELSE /\ q + 5 <= Len(e.out) /\ e.out[q + 1] = 233
         /\ q + 5 + RelVal(e.out, q + 2, 4) = e.d + n

\* bytes (0, 13) of the original function are overwritten by the entry jump: a branch of the part of the function
\* that is NOT copied (and therefore still runs in place) must not target them
Clobbered(ins, lim) == \E j \in 1..Len(ins) : ins[j].p >= lim /\ ins[j].rel # 0 /\ ins[j].tgt > 0 /\ ins[j].tgt < 13
Check(e) ==
   LET have == Len(e.fn) IN
   LET pr == Parse(e.fn, 0, have, <<>>, have < e.size) IN
   IF e.beyond THEN "V:wrote-beyond-the-placeholder"          \* the function behind a tight placeholder changed
   ELSE IF ~pr.ok \/ Len(pr.ins) = 0 THEN "outside-model"
   ELSE LET ins == pr.ins IN LET n0 == Copied(ins) IN
        LET lim == IF n0 < 0 THEN e.size ELSE n0 IN
        LET into == \E j \in 1..Len(ins) : ins[j].rel # 0 /\ ins[j].tgt > 0 /\ ins[j].tgt < lim IN
        IF e.err # "" THEN (IF SubSeq(e.out, 1, 8) # <<144, 144, 144, 144, 144, 144, 144, 144>> THEN "V:refusal-left-placeholder-modified"
                            ELSE IF into THEN "refused:branch-into-prefix" ELSE "refused:other")
        ELSE IF n0 < 0 /\ have < e.size THEN "outside-model"
        ELSE IF e.far /\ \E j \in 1..Len(ins) : ins[j].p < lim /\ ins[j].rel # 0 THEN "outside-model"   \* rel32 cannot reach across > 2 GiB
        ELSE IF Clobbered(ins, lim) THEN "V:branch-into-overwritten-entry-bytes-accepted"
        ELSE LET lres == Lay(e.out, ins, 1, lim, 0, <<>>) IN
             IF lres.err # "" THEN lres.err
             ELSE LET r == Faithful(e.fn, e.out, ins, lres.lay, 1, lim, e.d) IN
             IF r # "ok" THEN r
             ELSE LET K == {k \in 1..Len(ins) : ins[k].p < lim} IN
                  LET lastI == ins[CHOOSE k \in K : \A j \in K : j <= k] IN
                  IF ~TailOk(e, lres.qend, lim, lastI.ret \/ lastI.cls = "jmp") THEN "V:tail-jump"
                  ELSE IF \E j \in 1..Len(ins) : IsBranch(ins[j]) /\ ins[j].tgt = 0 THEN "ok+branch-to-entry" ELSE "ok"

Viol == {"V:refusal-left-placeholder-modified", "V:copied-bytes-differ", "V:output-truncated", "V:output-not-decodable", "V:opcode-bytes-differ",
         "V:bytes-after-pcrel-field-lost", "V:displacement-ignores-growth", "V:displacement", "V:displacement-inside-prefix",
         "V:branch-into-the-middle-of-a-copied-instruction", "V:branch-into-overwritten-entry-bytes-accepted",
         "V:tail-jump", "V:wrote-beyond-the-placeholder"}
Init == l = 1 /\ tally = <<>> /\ bad = <<>>
Bump(t, c) == IF \E i \in 1..Len(t) : t[i][1] = c
              THEN [i \in 1..Len(t) |-> IF t[i][1] = c THEN <<c, t[i][2] + 1>> ELSE t[i]]
              ELSE Append(t, <<c, 1>>)
Next == /\ l <= Len(Trace)
        /\ LET c == Check(Trace[l]) IN
           /\ tally' = Bump(tally, c)
           /\ bad' = IF c \in Viol /\ Len(bad) < 40 THEN Append(bad, <<c, l>>) ELSE bad
        /\ l' = l + 1
Spec == Init /\ [][Next]_<<l, tally, bad>>
Done == (l = Len(Trace) + 1) => PrintT(ToJson([summary |-> TRUE, tally |-> tally, bad |-> bad]))
Accepted == TLCGet("stats").diameter - 1 = Len(Trace)
=============================================================================
