SPECIFICATION Spec
CONSTANTS TraceFile = "trace.ndjson"
CONSTRAINT Done
POSTCONDITION Accepted
CHECK_DEADLOCK FALSE
