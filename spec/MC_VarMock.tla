---- MODULE MC_VarMock ----
EXTENDS VarMock
\* "i" = a non-zero initial value, "z" = the zero value of the type (nil for interfaces)
X0_3 == ("x1" :> "i" @@ "x2" :> "z" @@ "x3" :> "i")
Owner_3 == ("x1" :> "b1" @@ "x2" :> "b1" @@ "x3" :> "b2")
X0_1 == ("x1" :> "i")
Owner_1 == ("x1" :> "b1")
X0_2 == ("x1" :> "i" @@ "x2" :> "z")
Owner_2 == ("x1" :> "b1" @@ "x2" :> "b1")
====
