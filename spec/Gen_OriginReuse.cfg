SPECIFICATION Spec
CONSTANTS
  T = {"f", "g"}
  PH = {"p1", "p2"}
  MaxOps = 5
CONSTRAINT Emit
CHECK_DEADLOCK FALSE
