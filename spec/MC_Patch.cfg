SPECIFICATION Spec
CONSTANTS
  T = {"f", "g"}
  MaxOps = 7
  Ops <- AllOps
  Disciplined = FALSE
INVARIANT CapPristine
INVARIANT EntryValid
INVARIANT Tracked
PROPERTY AllRestores
VIEW View
CHECK_DEADLOCK FALSE
