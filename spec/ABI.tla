---------------------------------- MODULE ABI ----------------------------------
(* C01: where Go's register-based calling convention (ABIInternal, amd64) puts the arguments and results of a
   function, and why goom's entry jump does not disturb them.
   Transcription of the assignment algorithm of the Go internal ABI specification:
     integer registers RAX RBX RCX RDI RSI R8 R9 R10 R11 (9), floating point X0..X14 (15);
     a value is register-assigned only if ALL its fields fit in the registers still free, otherwise the whole
     value goes to the stack and the register counters are rolled back; arrays of length > 1 always go to the
     stack, arrays of length 1 are treated as their element; strings/slices/interfaces take 2/3/2 integer
     registers; a variadic tail is a slice; results are assigned by the same rule with a fresh register file.
   The entry jump goom writes (JumpISA.tla) clobbers exactly RDX, which is the closure-context register and NOT
   an argument register: ClobberFree.
   TLC enumerates signatures over a type alphabet; Layout(sig) is the slot assignment; each distinct layout gets a
   concrete witness in the generated signature zoo (checks/c01.py). *)
EXTENDS Integers, Sequences, FiniteSets, TLC, Json

IntRegs == <<"RAX", "RBX", "RCX", "RDI", "RSI", "R8", "R9", "R10", "R11">>
NFloat == 15
Clobber == {"RDX"}                       \* registers written by the entry jump (JumpISA.tla, ThroughOk)

\* type alphabet: [n: name, i: integer registers needed, f: float registers needed, stack: always on the stack]
Ty(n, i, f, s) == [n |-> n, i |-> i, f |-> f, stack |-> s]
Types == {Ty("int", 1, 0, FALSE), Ty("int8", 1, 0, FALSE), Ty("bool", 1, 0, FALSE), Ty("float64", 0, 1, FALSE), Ty("float32", 0, 1, FALSE),
          Ty("string", 2, 0, FALSE), Ty("slice", 3, 0, FALSE), Ty("iface", 2, 0, FALSE), Ty("func", 1, 0, FALSE), Ty("ptr", 1, 0, FALSE),
          Ty("struct2", 1, 1, FALSE), Ty("struct5", 5, 0, FALSE), Ty("array1", 1, 0, FALSE), Ty("array2", 0, 0, TRUE)}
TypeByName(n) == CHOOSE t \in Types : t.n = n

\* assignment of a sequence of type names: result is a sequence of slots "I<k>..", "F<k>..", "S" per value
RECURSIVE Assign(_, _, _, _)
Assign(ts, I, F, acc) ==
    IF ts = <<>> THEN acc
    ELSE LET t == TypeByName(Head(ts)) IN
         IF t.stack \/ I + t.i > Len(IntRegs) \/ F + t.f > NFloat
         THEN Assign(Tail(ts), I, F, Append(acc, [where |-> "stack", ints |-> <<>>, floats |-> 0]))
         ELSE Assign(Tail(ts), I + t.i, F + t.f,
                     Append(acc, [where |-> "regs", ints |-> [k \in 1..t.i |-> IntRegs[I + k]], floats |-> t.f]))
Layout(params, results) == [p |-> Assign(params, 0, 0, <<>>), r |-> Assign(results, 0, 0, <<>>)]

UsedRegs(l) == UNION {{l.p[k].ints[j] : j \in 1..Len(l.p[k].ints)} : k \in 1..Len(l.p)}
               \cup UNION {{l.r[k].ints[j] : j \in 1..Len(l.r[k].ints)} : k \in 1..Len(l.r)}
ClobberFree(params, results) == UsedRegs(Layout(params, results)) \cap Clobber = {}
=============================================================================
