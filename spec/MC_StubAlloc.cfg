SPECIFICATION Spec
CONSTANTS
  P = {1, 2}
  Sizes = {1, 2, 3}
  K = 2
  R = 6
  MmapWorks = TRUE
INVARIANT Disjoint
INVARIANT InReserve
INVARIANT Sized
INVARIANT NoOverrun
VIEW View
CHECK_DEADLOCK FALSE
