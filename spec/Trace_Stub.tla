------------------------------ MODULE Trace_Stub ------------------------------
(* Direction B for C20: regions recorded from free-running requesters (public Acquire on the
   mmap path, acquireFromHolder on the fallback path up to exhaustion) are accumulated into the
   `granted` set of spec StubAlloc and the spec's own invariants are evaluated after every event.
   Addresses are order-preserving ranks (TLC integers are 32 bit); sizes are in bytes. *)
EXTENDS StubAlloc, TLC, Json
CONSTANT TraceFile
Trace == ndJsonDeserialize(TraceFile)
VARIABLES l, resLo, resHi, bad
tvars == <<vars, l, resLo, resHi, bad>>

TInit == Init /\ l = 1 /\ resLo = 0 /\ resHi = 0 /\ bad = <<>>

EvReserve == /\ l <= Len(Trace) /\ Trace[l].ev = "reserve"
             /\ resLo' = Trace[l].lo /\ resHi' = Trace[l].hi
             /\ l' = l + 1 /\ UNCHANGED <<vars, bad>>

EvRegion == /\ l <= Len(Trace) /\ Trace[l].ev = "region"
            /\ LET e == Trace[l] IN
               IF e.err THEN UNCHANGED <<granted, bad>>
               ELSE /\ granted' = granted \cup {[p |-> e.p, k |-> l, lo |-> e.lo, hi |-> e.hi, len |-> e.len,
                                                src |-> IF e.src = "acquire" THEN "mmap" ELSE "holder"]}
                    /\ bad' = IF e.size < e.len THEN Append(bad, <<"short", l>>)
                              ELSE IF e.x # "ok" THEN Append(bad, <<e.x, l>>) ELSE bad
            /\ l' = l + 1 /\ UNCHANGED <<off, pc, pl, want, done, fresh, hist, resLo, resHi>>

\* the allocator's own idea of its reserve [min, max) must lie inside the function stub.Placeholder as the run-time symbol
\* table knows it (x = "ok"): a reserve that reaches into the following functions hands out other functions' code
EvBounds == /\ l <= Len(Trace) /\ Trace[l].ev = "bounds"
            /\ bad' = IF Trace[l].x # "ok" THEN Append(bad, <<Trace[l].x, l>>) ELSE bad
            /\ l' = l + 1 /\ UNCHANGED <<vars, resLo, resHi>>

TNext == EvReserve \/ EvRegion \/ EvBounds
TSpec == TInit /\ [][TNext]_tvars

\* the invariants of StubAlloc on the accumulated regions
TDisjoint == Disjoint
TInReserve == \A a \in granted : a.src = "holder" => (resLo <= a.lo /\ a.hi <= resHi)
TUsable == bad = <<>>          \* every region at least as large as requested, writable, executable
Accepted == TLCGet("stats").diameter - 1 = Len(Trace)
=============================================================================
