SPECIFICATION Spec
CONSTANTS
  V = {"i1", "i2"}
  M <- M2
  B = {"b1"}
  Kinds = {"apply", "stub", "when"}
  Args = {7, 8}
  MaxOps = 3
  Ops <- AllOps
CONSTRAINT Emit
CHECK_DEADLOCK FALSE
