SPECIFICATION TSpec
CONSTANTS
  Procs = {1, 2, 3, 4}
  PageOf <- PO4
  RDepth = 1
  TraceFile = "trace.ndjson"
INVARIANT XAlways
INVARIANT WOnlyInM
INVARIANT NoBadCalls
POSTCONDITION Accepted
CHECK_DEADLOCK FALSE
