------------------------------- MODULE Gen_Reloc -------------------------------
(* Spec -> code for C03: TLC enumerates abstract instruction streams - the prologue shapes the relocation has to
   cope with - and the driver synthesises bytes for each, runs goom's pure relocation on them and Trace_Reloc judges
   the result exactly like a real function.
   An abstract instruction is [k, t]: kind and, for PC-relative kinds, the class of its target:
     kinds   p1 p3 p5 p6 (plain, by length)   p3c p6c (plain, last byte 0xC3: reads as RET to anything that looks at bytes)   j8w (rel8, widenable: JE)   j8n (rel8, not widenable: JNE)   jmp8
             jcc32  jmp32  call32   rip7 (cmp dword [rip+d], imm8: displacement followed by an immediate)   lea7   ret
     targets "entry" (offset 0)  "second" (start of the 2nd instruction: inside the copied prefix)
             "end" (the final RET of the function)  "ext" (4 KiB past the function)
   A stream is a sequence of Len instructions followed by a fixed tail (xor eax,eax ; ret) of Tail bytes. *)
EXTENDS Integers, Sequences, FiniteSets, TLC, Json
CONSTANTS MaxLen, Plain, Rel8, Rel32, Tails
Kinds == Plain \cup Rel8 \cup Rel32 \cup {"ret"}
Ins == [k : Plain \cup {"ret"}, t : {"none"}] \cup [k : Rel8, t : {"entry", "second", "end"}] \cup [k : Rel32, t : {"entry", "second", "end", "ext"}]
VARIABLE s
Streams == UNION {[1..n -> Ins] : n \in 2..MaxLen}
Init == s \in (Streams \X Tails)
Next == UNCHANGED s
Spec == Init /\ [][Next]_s
Emit == PrintT(ToJson([ins |-> s[1], tail |-> s[2]]))
=============================================================================
