SPECIFICATION Spec
CONSTANTS
  MaxLen = 3
  Plain = {"p1", "p3", "p6", "p3c", "p6c"}
  Rel8 = {"j8w", "j8n", "jmp8"}
  Rel32 = {"call32", "rip7", "lea7", "jcc32"}
  Tails = {1, 3, 9}
CONSTRAINT Emit
CHECK_DEADLOCK FALSE
