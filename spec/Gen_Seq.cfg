SPECIFICATION Spec
CONSTANTS
  G = {1, 2}
  N = 3
  K = 2
CONSTRAINT Emit
CHECK_DEADLOCK FALSE
