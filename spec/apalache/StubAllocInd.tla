---------------------------- MODULE StubAllocInd ----------------------------
(* Unbounded safety of the stub-space allocator (C20) by an inductive invariant, discharged by Apalache:
     apalache-mc check --cinit=CInit --init=IndInit --inv=IndInv --length=1 StubAllocInd.tla     (induction step)
     apalache-mc check --cinit=CInit --init=Init    --inv=IndInv --length=0 StubAllocInd.tla     (base case)
   for ANY number K of requests per process and ANY reserve size R below the first OS address (the TLC configuration
   MC_StubAlloc.cfg has K = 2, R = 6), up to 3 processes and request sizes 1..8.  IndInv implies Disjoint, InReserve,
   Sized and NoOverrun (checked by the same run: Safe). *)
EXTENDS StubAlloc, Apalache

CInit == /\ P \in SUBSET (1..3) /\ P # {}
         /\ Sizes \in SUBSET (1..8) /\ Sizes # {}
         /\ K \in Nat /\ R \in Nat /\ R < 1000
         /\ MmapWorks \in BOOLEAN

TypeOK == /\ off \in Nat
          /\ pc \in [P -> {"idle", "loaded"}]
          /\ pl \in [P -> Nat] /\ want \in [P -> Sizes \cup {0}] /\ done \in [P -> Nat]
          /\ fresh \in Nat /\ fresh >= 1000
          /\ \A a \in granted : /\ a.src \in {"holder", "mmap"} /\ a.len \in Sizes /\ a.hi = a.lo + a.len /\ a.p \in P

\* everything handed out of the reserve lies below the bump offset (and inside the reserve); everything the OS handed
\* out lies at or above its first address and below the next address it will hand out
IndInv == /\ TypeOK
          /\ \A p \in P : pc[p] = "loaded" => (want[p] \in Sizes /\ pl[p] <= off)
          /\ \A a \in granted : a.src = "holder" => (0 <= a.lo /\ a.hi <= off /\ a.hi <= R)
          /\ \A a \in granted : a.src = "mmap" => (1000 <= a.lo /\ a.hi < fresh)
          /\ Disjoint

\* Apalache needs every variable assigned: granted = Gen(3) is an arbitrary set of at most 3 records.  That bound loses
\* nothing: Disjoint and the per-record conjuncts are violated, if at all, by at most two records of the post-state,
\* of which at most one is new, so a counterexample to the induction step exists with |granted| <= 2 in the pre-state.
IndInit == /\ granted = Gen(3)
           /\ off \in Nat /\ fresh \in Nat
           /\ pc \in [P -> {"idle", "loaded"}]
           /\ pl \in [P -> Nat] /\ want \in [P -> Sizes \cup {0}] /\ done \in [P -> Nat]
           /\ hist = <<>>                 \* hist is write-only: no action reads it
           /\ IndInv
Safe == Disjoint /\ InReserve /\ Sized /\ NoOverrun
IndImpliesSafe == IndInv => Safe
=============================================================================
