----------------------------- MODULE OriginReuse -----------------------------
(* C03, lifecycle side: which original an origin placeholder runs when placeholders are re-used.

   A placeholder is an ordinary function of the target's signature; Origin(&p) makes goom relocate the target's
   prologue into p's body at EVERY apply (patch.replaceFunc -> fixOrigin).  Nothing ties a placeholder to one target:
   a test may use the same placeholder for F, reset, use it for G, reset, and use it for F again.

     holds[p]    the target whose relocated prologue p's body currently holds ("" = pristine body)
     mocked[t]   "" (not mocked) / "plain" (callback without origin) / the placeholder its callback calls
     org[t]      the placeholder t's cached mocker was given with Origin(&p): it stays with the mocker until Reset
                 (baseMocker.Cancel clears it), so a later plain Apply on the same target relocates into it again

   Requirement: while t is mocked with placeholder p, a call of t runs the callback, whose call of p runs t's OWN
   original; a direct call of p runs the original of the target it was last handed over for.
   Using one placeholder for two targets whose mockers both still hold it (no Reset in between) is a mistake of the
   test (not generated). *)
EXTENDS Integers, Sequences, FiniteSets, TLC, Json

CONSTANTS T, PH, MaxOps

VARIABLES holds, mocked, org, hist
vars == <<holds, mocked, org, hist>>

Init == holds = [p \in PH |-> ""] /\ mocked = [t \in T |-> ""] /\ org = [t \in T |-> ""] /\ hist = <<>>
Log(r) == hist' = Append(hist, r)
Obs(m) == [t \in T |-> IF m[t] = "" THEN "P" ELSE "J"]

ApplyO(t, p) ==
    /\ \A u \in T \ {t} : org[u] # p
    /\ mocked' = [mocked EXCEPT ![t] = p]
    /\ org' = [org EXCEPT ![t] = p]
    /\ holds' = [holds EXCEPT ![p] = t]            \* relocated afresh at every apply
    /\ Log([op |-> "ApplyO", t |-> t, p |-> p, obs |-> Obs(mocked'), panic |-> ""])

Apply(t) ==
    /\ mocked' = [mocked EXCEPT ![t] = "plain"]
    /\ holds' = IF org[t] = "" THEN holds ELSE [holds EXCEPT ![org[t]] = t]
    /\ UNCHANGED org
    /\ Log([op |-> "Apply", t |-> t, obs |-> Obs(mocked'), panic |-> ""])

Reset ==
    /\ mocked' = [t \in T |-> ""] /\ org' = [t \in T |-> ""]
    /\ UNCHANGED holds
    /\ Log([op |-> "Reset", obs |-> Obs(mocked'), panic |-> ""])

\* a fresh builder (the previous one was reset): what the patch table still remembers must not matter
NewBuilder ==
    /\ \A t \in T : mocked[t] = ""
    /\ UNCHANGED <<holds, mocked, org>>
    /\ Log([op |-> "NewBuilder", obs |-> Obs(mocked), panic |-> ""])

Call(t) ==
    /\ UNCHANGED <<holds, mocked, org>>
    /\ Log([op |-> "Call", t |-> t,
            res |-> IF mocked[t] = "" THEN "orig:" \o t ELSE IF mocked[t] = "plain" THEN "cb" ELSE "cbo:" \o t,
            ires |-> IF mocked[t] = "" THEN "orig:" \o t ELSE IF mocked[t] = "plain" THEN "cb" ELSE "cbo:" \o holds[mocked[t]],
            obs |-> Obs(mocked), panic |-> ""])

CallPh(p) ==
    /\ holds[p] # ""
    /\ UNCHANGED <<holds, mocked, org>>
    /\ Log([op |-> "CallPh", p |-> p, res |-> "orig:" \o holds[p], ires |-> "orig:" \o holds[p], obs |-> Obs(mocked), panic |-> ""])

Finish == Len(hist) = MaxOps /\ hist' = Append(hist, [op |-> "End"]) /\ UNCHANGED <<holds, mocked, org>>
Next == \/ Finish
        \/ /\ Len(hist) < MaxOps
           /\ \/ \E t \in T, p \in PH : ApplyO(t, p)
              \/ \E t \in T : Apply(t) \/ Call(t)
              \/ \E p \in PH : CallPh(p)
              \/ Reset \/ NewBuilder
Spec == Init /\ [][Next]_vars

\* the placeholder a mocked target's callback calls holds that target's prologue
OwnOriginal == \A t \in T : mocked[t] \in PH => holds[mocked[t]] = t
CallsConform == (Len(hist) > 0 /\ hist[Len(hist)].op \in {"Call", "CallPh"}) => hist[Len(hist)].ires = hist[Len(hist)].res
View == <<holds, mocked, org, Len(hist)>>
Emit == Len(hist) = MaxOps + 1 => PrintT(ToJson(SubSeq(hist, 1, MaxOps)))
=============================================================================
