SPECIFICATION Spec
CONSTANTS
  V = {"i1", "i2", "j1"}
  M <- M3
  B = {"b1", "b2"}
  MaxOps = 9
  Ops <- AllOps
INVARIANT Emit
CHECK_DEADLOCK FALSE
