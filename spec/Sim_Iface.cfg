SPECIFICATION Spec
CONSTANTS
  V = {"i1", "i2", "j1", "l1", "l2"}
  M <- M5
  B = {"b1", "b2"}
  Kinds = {"apply", "stub", "when", "seq"}
  Args = {7, 8}
  MaxOps = 9
  Ops <- AllHeldOps
INVARIANT Emit
CHECK_DEADLOCK FALSE
