SPECIFICATION Spec
CONSTANTS
  T = {"f", "g"}
  PH = {"p1", "p2"}
  MaxOps = 8
INVARIANT OwnOriginal
INVARIANT CallsConform
VIEW View
CHECK_DEADLOCK FALSE
