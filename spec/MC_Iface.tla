---- MODULE MC_Iface ----
EXTENDS Iface
M3 == ("i1" :> {"A", "b", "C"} @@ "i2" :> {"A", "b", "C"} @@ "j1" :> {"Z"})
M2 == ("i1" :> {"A", "b", "C"} @@ "i2" :> {"A", "b", "C"})
AllOps == {"Mock", "Reset", "Drop", "GC", "Call"}
====
