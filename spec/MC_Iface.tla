---- MODULE MC_Iface ----
EXTENDS Iface
M3 == ("i1" :> {"A", "b", "C"} @@ "i2" :> {"A", "b", "C"} @@ "j1" :> {"Z"})
M1 == ("i1" :> {"A", "b", "C"})
M1h == ("i1" :> {"A", "C"})
\* l1, l2: variables of two function-local interface types that share package path and name; "Beta" sits at slot 1 of
\* the first (Alpha, Beta) and at slot 0 of the second (Beta, Gamma)
M5 == ("i1" :> {"A", "b", "C"} @@ "i2" :> {"A", "b", "C"} @@ "j1" :> {"Z"} @@ "l1" :> {"Alpha", "Beta"} @@ "l2" :> {"Beta", "Gamma"})
ML == ("l1" :> {"Alpha", "Beta"} @@ "l2" :> {"Beta", "Gamma"})
M2 == ("i1" :> {"A", "b", "C"} @@ "i2" :> {"A", "b", "C"})
AllOps == {"Mock", "Reset", "Drop", "GC", "Call"}
HeldOps == {"Mock", "Held", "Reset", "Call"}
HeldGcOps == {"Mock", "Held", "Reset", "Drop", "GC", "Call"}
M1a == ("i1" :> {"A"})
AllHeldOps == AllOps \cup {"Held"}
====
