---- MODULE MC_Iface ----
EXTENDS Iface
M3 == ("i1" :> {"A", "b", "C"} @@ "i2" :> {"A", "b", "C"} @@ "j1" :> {"Z"})
M1 == ("i1" :> {"A", "b", "C"})
M1h == ("i1" :> {"A", "C"})
M2 == ("i1" :> {"A", "b", "C"} @@ "i2" :> {"A", "b", "C"})
AllOps == {"Mock", "Reset", "Drop", "GC", "Call"}
HeldOps == {"Mock", "Held", "Reset", "Call"}
AllHeldOps == AllOps \cup {"Held"}
====
