---- MODULE MC_Patch ----
EXTENDS Patch
AllOps == {"Patch", "Apply", "UnpatchG", "Restore", "UnpatchT", "UnpatchAll", "Call"}
====
