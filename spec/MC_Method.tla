---- MODULE MC_Method ----
EXTENDS Method
TS == {"A.Call", "A.Call2", "A.call", "A.callAll", "V.Call", "V.Get", "u.Call", "l.Call", "E.Own", "M.P", "M.Q", "Gint.M", "Gint.N", "Wint.M", "Gstr.M", "GpA.M", "GpV.M"}
BodyOf == [t \in TS |-> IF t \in {"GpA.M", "GpV.M"} THEN "G[ptr-shape].M" ELSE t]
====
