SPECIFICATION Spec
CONSTANTS
  N = 144
  GroupNames <- GNI
  Groups <- GI
  Obj <- ObjI
  HasCancel = FALSE
  CondSizes = {}
  SeqSizes = {}
  MaxOps = 10
INVARIANT Emit
CHECK_DEADLOCK FALSE
