SPECIFICATION Spec
CONSTANTS
  B = {"b1", "b2"}
  T = {"f", "g", "h"}
  CB = {"c1", "c2"}
  MaxOps = 10
INVARIANT Emit
CHECK_DEADLOCK FALSE
