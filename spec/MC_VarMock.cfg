SPECIFICATION Spec
CONSTANTS
  X = {"x1", "x2", "x3"}
  V = {"a", "b", "z"}
  X0 <- X0_3
  B = {"b1", "b2"}
  Owner <- Owner_3
  Vias = {"lookup"}
  MaxOps = 7
INVARIANT Conforms
PROPERTY RestoredAfterReset
PROPERTY NeverSetUntouched
PROPERTY OthersUntouched
VIEW View
CHECK_DEADLOCK FALSE
