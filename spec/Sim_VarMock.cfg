SPECIFICATION Spec
CONSTANTS
  X = {"x1", "x2", "x3"}
  V = {"a", "b", "z"}
  X0 <- X0_3
  B = {"b1", "b2"}
  Owner <- Owner_3
  Vias = {"lookup"}
  MaxOps = 12
INVARIANT Emit
CHECK_DEADLOCK FALSE
