SPECIFICATION Spec
CONSTANTS
  Sig <- SigV1
  V = {0, 1, 2}
  MaxTail = 2
  MaxClauses = 1
  R = {1, 2}
INVARIANT Conforms
CONSTRAINT Emit
CHECK_DEADLOCK FALSE
