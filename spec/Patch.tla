--------------------------------- MODULE Patch ---------------------------------
(* The patch layer underneath every function mock: package internal/patch (monkey.go, patch.go, guard.go).
   The mocker API (Goom.tla) drives it in a disciplined way; this module specifies the layer itself, one action per
   exported entry point, so that the real package can be replayed against it directly:

     Patch(t)        patch.Patch / UnsafePatch / Ptr (replaceFunc): an older registration of t is unpatched and
                     dropped, the new one is registered, the entry bytes are checked (an entry that already holds a
                     jump is refused: "already patched") and captured.  Nothing is written yet.
     Apply(g)        Guard.Apply: the entry jump of g is written, g.applied = TRUE
     UnpatchG(g)     Guard.Unpatch / UnpatchWithLock: if applied, the captured bytes are written back
     Restore(g)      Guard.Restore: if applied, the entry jump is written again
     UnpatchT(t)     patch.Unpatch(target): the registered patch of t is unpatched and dropped
     UnpatchAll      every registered patch is unpatched and dropped
     Call(t)         what a caller of t reaches

   entry[t]   0 pristine, or the id of the guard whose jump the entry holds
   table[t]   id of the registered patch of t (0 = none)
   gd[g]      [t, ok (bytes were captured), applied]   (captured bytes are always the pristine ones: CapPristine)

   With Disciplined = TRUE only the registered guard of a target is applied / unpatched / restored (what the
   mocker API does, Goom.tla); then the stronger invariants Tracked and the action property AllRestores hold. *)
EXTENDS Integers, Sequences, FiniteSets, TLC, Json

CONSTANTS T, MaxOps, Ops, Disciplined

VARIABLES entry, table, gd, cap, hist
vars == <<entry, table, gd, cap, hist>>

Init == /\ entry = [t \in T |-> 0]
        /\ table = [t \in T |-> 0]
        /\ gd = <<>>
        /\ cap = <<>>            \* cap[g]: what replaceFunc captured (0 pristine, a guard id, or -1 nothing)
        /\ hist = <<>>

Obs(e) == [t \in T |-> IF e[t] = 0 THEN "P" ELSE "J"]
Log(r) == hist' = Append(hist, r)
G == 1..Len(gd)
Usable(g) == gd[g].ok /\ (Disciplined => table[gd[g].t] = g)

\* what Guard.Unpatch of guard g does to the entry map e
UnpatchEff(e, g) == IF gd[g].ok /\ gd[g].applied THEN [e EXCEPT ![gd[g].t] = cap[g]] ELSE e

Patch(t) ==
    /\ "Patch" \in Ops
    /\ LET e1 == IF table[t] # 0 THEN UnpatchEff(entry, table[t]) ELSE entry
           g == Len(gd) + 1
           refused == e1[t] # 0 IN
       /\ entry' = e1
       /\ table' = [table EXCEPT ![t] = g]
       /\ gd' = Append(gd, [t |-> t, ok |-> ~refused, applied |-> FALSE])
       /\ cap' = Append(cap, IF refused THEN -1 ELSE e1[t])
       /\ Log([op |-> "Patch", t |-> t, g |-> g, res |-> IF refused THEN "already-patched" ELSE "ok", obs |-> Obs(e1), panic |-> ""])

Apply(g) ==
    /\ "Apply" \in Ops /\ g \in G /\ Usable(g)
    /\ entry' = [entry EXCEPT ![gd[g].t] = g]
    /\ gd' = [gd EXCEPT ![g].applied = TRUE]
    /\ UNCHANGED <<table, cap>>
    /\ Log([op |-> "Apply", g |-> g, obs |-> Obs(entry'), panic |-> ""])

UnpatchG(g) ==
    /\ "UnpatchG" \in Ops /\ g \in G /\ Usable(g)
    /\ entry' = UnpatchEff(entry, g)
    /\ UNCHANGED <<table, gd, cap>>
    /\ Log([op |-> "UnpatchG", g |-> g, obs |-> Obs(entry'), panic |-> ""])

Restore(g) ==
    /\ "Restore" \in Ops /\ g \in G /\ Usable(g)
    /\ entry' = IF gd[g].applied THEN [entry EXCEPT ![gd[g].t] = g] ELSE entry
    /\ UNCHANGED <<table, gd, cap>>
    /\ Log([op |-> "Restore", g |-> g, obs |-> Obs(entry'), panic |-> ""])

UnpatchT(t) ==
    /\ "UnpatchT" \in Ops
    /\ entry' = IF table[t] # 0 THEN UnpatchEff(entry, table[t]) ELSE entry
    /\ table' = [table EXCEPT ![t] = 0]
    /\ UNCHANGED <<gd, cap>>
    /\ Log([op |-> "UnpatchT", t |-> t, res |-> IF table[t] # 0 THEN "true" ELSE "false", obs |-> Obs(entry'), panic |-> ""])

\* the registered patches are unpatched one by one (distinct targets: the order does not matter)
UnpatchAll ==
    /\ "UnpatchAll" \in Ops
    /\ entry' = [t \in T |-> IF table[t] # 0 THEN UnpatchEff(entry, table[t])[t] ELSE entry[t]]
    /\ table' = [t \in T |-> 0]
    /\ UNCHANGED <<gd, cap>>
    /\ Log([op |-> "UnpatchAll", obs |-> Obs(entry'), panic |-> ""])

Call(t) ==
    /\ "Call" \in Ops
    /\ UNCHANGED <<entry, table, gd, cap>>
    /\ Log([op |-> "Call", t |-> t, res |-> IF entry[t] = 0 THEN "orig" ELSE "repl:" \o ToString(entry[t]), obs |-> Obs(entry), panic |-> ""])

Finish == Len(hist) = MaxOps /\ hist' = Append(hist, [op |-> "End"]) /\ UNCHANGED <<entry, table, gd, cap>>
Next == \/ Finish
        \/ /\ Len(hist) < MaxOps
           /\ \/ \E t \in T : Patch(t) \/ UnpatchT(t) \/ Call(t)
              \/ \E g \in G : Apply(g) \/ UnpatchG(g) \/ Restore(g)
              \/ UnpatchAll
Spec == Init /\ [][Next]_vars

\* what is written back is always the pristine entry: a jump is never captured
CapPristine == \A g \in G : gd[g].ok => cap[g] = 0
\* an entry holds the pristine bytes or the complete jump of an applied guard of that very target
EntryValid == \A t \in T : entry[t] = 0 \/ (entry[t] \in G /\ gd[entry[t]].t = t /\ gd[entry[t]].applied)
\* disciplined use: a patched entry belongs to the registered guard
Tracked == Disciplined => \A t \in T : entry[t] = 0 \/ entry[t] = table[t]
\* disciplined use: UnpatchAll restores everything
AllRestores == [][(Disciplined /\ Len(hist') > Len(hist) /\ hist'[Len(hist')].op = "UnpatchAll") => \A t \in T : entry'[t] = 0]_vars

View == <<entry, table, gd, cap, Len(hist)>>
Emit == Len(hist) = MaxOps + 1 => PrintT(ToJson(SubSeq(hist, 1, MaxOps)))
=============================================================================
