SPECIFICATION Spec
CONSTANTS
  MaxOps = 12
INVARIANT Emit
CHECK_DEADLOCK FALSE
