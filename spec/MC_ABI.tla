---- MODULE MC_ABI ----
(* signatures: up to MaxGroups parameter groups (a type repeated 1 or Rep times), an optional variadic tail, up to 2 results *)
EXTENDS ABI
CONSTANTS MaxGroups, Rep, ParamTypes, ResultTypes
VARIABLE sig
Names == {t.n : t \in Types}
Expand(g) == [k \in 1..g[2] |-> g[1]]
RECURSIVE Flat(_)
Flat(gs) == IF gs = <<>> THEN <<>> ELSE Expand(Head(gs)) \o Flat(Tail(gs))
Groups == ParamTypes \X {1, Rep}
Sigs == {[g |-> gs, variadic |-> v, res |-> rs] : gs \in UNION {[1..n -> Groups] : n \in 0..MaxGroups}, v \in BOOLEAN,
                                                  rs \in UNION {[1..n -> ResultTypes] : n \in 0..2}}
Params(s) == Flat(s.g) \o (IF s.variadic THEN <<"slice">> ELSE <<>>)
Init == sig \in Sigs
Next == UNCHANGED sig
Spec == Init /\ [][Next]_sig
NoClobber == ClobberFree(Params(sig), sig.res)
\* a compact key of the layout: which values are on the stack / how many int and float registers are consumed
Key(l) == [p |-> [k \in 1..Len(l.p) |-> IF l.p[k].where = "stack" THEN "S" ELSE "R"], r |-> [k \in 1..Len(l.r) |-> IF l.r[k].where = "stack" THEN "S" ELSE "R"]]
Emit == PrintT(ToJson([params |-> Flat(sig.g), variadic |-> sig.variadic, results |-> sig.res,
                       layout |-> Layout(Params(sig), sig.res)]))
====
