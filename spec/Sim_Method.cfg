SPECIFICATION Spec
CONSTANTS
  Targets <- TS
  Body <- BodyOf
  B = {"b1", "b2"}
  MaxOps = 9
INVARIANT Emit
CHECK_DEADLOCK FALSE
