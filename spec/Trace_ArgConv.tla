---- MODULE Trace_ArgConv ----
EXTENDS ArgConv, Json
CONSTANT TraceFile
Trace == ndJsonDeserialize(TraceFile)
VARIABLES l, bad, tally
Init == l = 1 /\ bad = <<>> /\ tally = [ok |-> 0, free |-> 0]
Next == /\ l <= Len(Trace)
        /\ LET v == Judge(Trace[l]) IN
           /\ bad' = IF v \in {"ok", "free"} \/ Len(bad) >= 60 THEN bad ELSE Append(bad, <<v, l>>)
           /\ tally' = [ok |-> tally.ok + (IF v = "ok" THEN 1 ELSE 0), free |-> tally.free + (IF v = "free" THEN 1 ELSE 0)]
        /\ l' = l + 1
Spec == Init /\ [][Next]_<<l, bad, tally>>
Done == (l = Len(Trace) + 1) => PrintT(ToJson([summary |-> TRUE, tally |-> tally, bad |-> bad]))
Accepted == TLCGet("stats").diameter - 1 = Len(Trace)
====
