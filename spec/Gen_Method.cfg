SPECIFICATION Spec
CONSTANTS
  Targets <- TS
  Body <- BodyOf
  B = {"b1"}
  MaxOps = 2
CONSTRAINT Emit
CHECK_DEADLOCK FALSE
