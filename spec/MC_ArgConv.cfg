SPECIFICATION Spec
INVARIANT Inv
