SPECIFICATION Spec
CONSTANTS
  T = {"f", "g"}
  MaxOps = 4
  Ops <- AllOps
  Disciplined = FALSE
CONSTRAINT Emit
CHECK_DEADLOCK FALSE
