------------------------------ MODULE Trace_Conc ------------------------------
(* Direction B for C11: hook events recorded inside the critical sections of the real code
   (sequence number taken in the hook, i.e. under the lock that protects the state; goroutines renumbered 1..n)
   are replayed as actions of spec Conc: an event is accepted only if the corresponding action is ENABLED, so
   interleaved critical sections, a write phase out of order or a write without its P-section reject the trace
   even if nothing crashed.  "call" events carry what a caller of the steadily mocked target received. *)
EXTENDS Conc, Json
CONSTANT TraceFile
Trace == ndJsonDeserialize(TraceFile)
PO4 == [p \in Procs |-> 0]        \* one abstract page: every target of the driver shares it
VARIABLES l, badcalls
tvars == <<vars, l, badcalls>>
TInit == Init /\ l = 1 /\ badcalls = 0
Ev(name) == l <= Len(Trace) /\ Trace[l].ev = name
P == Trace[l].g
Step(a) == a /\ l' = l + 1 /\ UNCHANGED badcalls
TNext == \/ (Ev("patch.replace.locked") /\ Step(PLock(P, "replace")))
         \/ (Ev("guard.apply.locked") /\ Step(PLock(P, "apply")))
         \/ (Ev("guard.unpatch.locked") /\ Step(PLock(P, "unpatch")))
         \/ ((Ev("patch.replace.unlocking") \/ Ev("guard.apply.unlocking") \/ Ev("guard.unpatch.unlocking")) /\ Step(PUnlock(P)))
         \/ (Ev("mem.locked") /\ Step(MLock(P)))
         \/ (Ev("mem.rwx") /\ Step(MRwx(P)))
         \/ (Ev("mem.copied") /\ Step(MCopy(P)))
         \/ (Ev("mem.rx") /\ Step(MRx(P)))
         \/ (Ev("mem.unlocking") /\ Step(MUnlock(P)))
         \/ (Ev("call") /\ l' = l + 1 /\ badcalls' = badcalls + (IF Trace[l].ok THEN 0 ELSE 1) /\ UNCHANGED vars)
         \/ (Ev("call-f5") /\ l' = l + 1 /\ UNCHANGED <<vars, badcalls>>)      \* known finding F5 (judged in the check)
         \/ (Ev("round") /\ (\A p \in Procs : pcs[p] = "idle") /\ l' = l + 1
             /\ pcs' = pcs /\ lockP' = 0 /\ lockM' = 0 /\ entry' = [p \in Procs |-> "P"] /\ perm' = perm /\ rounds' = rounds /\ UNCHANGED <<badcalls, rwvars>>)
TSpec == TInit /\ [][TNext]_tvars
NoBadCalls == badcalls = 0
Accepted == TLCGet("stats").diameter - 1 = Len(Trace)
=============================================================================
