SPECIFICATION TSpec
CONSTANTS
  P = {0}
  Sizes = {1}
  K = 1
  R = 1
  MmapWorks = TRUE
  TraceFile = "trace.ndjson"
INVARIANT TDisjoint
INVARIANT TInReserve
INVARIANT TUsable
POSTCONDITION Accepted
CHECK_DEADLOCK FALSE
