------------------------------ MODULE ArgAlgebra ------------------------------
(* C18: argument expressions as a predicate algebra over equality classes.
   A value is represented by its Go-equality class (the driver computes the partition of each pool with
   Go's own ==/deep equality; TLC judges).  An expression is a small state machine: Resolve is the only
   action that may write; Eval must be a pure function of (expression, argument class). *)
EXTENDS Integers, Sequences, FiniteSets, TLC

EqualsOp(p, a) == p = a                        \* Equals(x) accepts y iff class(y) = class(x)
InOp(ps, a) == \E i \in 1..Len(ps) : EqualsOp(ps[i], a)     \* In(x1..xn) = union of Equals(xi)
AnyOp(a) == TRUE

\* what a recorded evaluation must look like: the same answer every time, in both orders for Equals
Expected(e) == CASE e.expr = "eq" -> EqualsOp(e.pat[1], e.arg)
                 [] e.expr = "in" -> InOp(e.pat, e.arg)
                 [] e.expr = "any" -> TRUE
                 \* In({a, b}, {c, d}) over the argument list (x, y) of a variadic target: the union of the element-wise conjunctions
                 [] e.expr = "inv" -> (EqualsOp(e.pat[1], e.arg) /\ EqualsOp(e.pat[2], e.arg2)) \/ (EqualsOp(e.pat[3], e.arg) /\ EqualsOp(e.pat[4], e.arg2))
\* the statement speaks of same-typed operands: an interface-typed parameter compared with a value of another
\* dynamic type is outside it (goom coerces bools/numbers/strings there) - only "no error" is required
Judge(e) == IF e.err # "" THEN "V:error-on-well-typed-input"
            ELSE IF e.expr = "inv" /\ e.altered THEN "V:evaluation-altered-its-argument-list"
            ELSE IF ~e.same THEN (IF \E i, j \in 1..Len(e.res) : e.res[i] # e.res[j] THEN "V:answer-changes-between-evaluations" ELSE "ok")
            ELSE IF \E i \in 1..Len(e.res) : e.res[i] # Expected(e) THEN
                 (IF \E i, j \in 1..Len(e.res) : e.res[i] # e.res[j] THEN "V:answer-changes-between-evaluations" ELSE "V:wrong-answer")
            ELSE IF e.expr = "eq" /\ e.rev # Expected(e) THEN "V:not-symmetric"
            ELSE "ok"
=============================================================================
