--------------------------------- MODULE Iface ---------------------------------
(* C07: interface-variable mocks.  b.Interface(&v).Method(m).Apply(cb) / .As(f).Return(r)

   MECHANISM (mirrors builder.go Interface, iface.go, internal/proxy/interface.go, internal/iface):
     ivar[v]          what the variable holds: "orig" (its pre-mock value) or "fake" (fabricated itab + ctx)
     cache[b][v]      builder b's cached interface mocker for variable v (keyed by type AND variable since
                      the fix of F7): None or the id of its context
     ctx[c]           context: backup taken ("unset"/"taken"), canceled, fun[m] = None or the heap object the
                      stub of slot m jumps through, keep = objects the context retains (all of them since the
                      fix of F8), owner variable
     heap             live heap objects (callback closures, MakeFunc values); alive[b] builder still referenced
   REQUIREMENT:
     exp[v]           "orig" or [m -> None / replacement id]: each mocked method reaches its own replacement,
                      unmocked methods panic 'method not implements', variables are independent,
                      Reset restores the previous value, the mock stays callable while the variable holds it
                      whatever happens to the builder and however often the collector runs. *)
EXTENDS Integers, Sequences, FiniteSets, TLC, Json

CONSTANTS V,        \* interface variables
          M,        \* [V -> set of method names] of the variable's interface type
          B,        \* builders
          MaxOps, Ops,
          Kinds,    \* instruction kinds explored: subset of {"apply", "stub", "when", "seq"}
          Args      \* call arguments explored: subset of {7, 8}

None == "none"
\* requirement value of a variable: holds its original value, or per method the replacement id (0 = not mocked)
Orig == [orig |-> TRUE, f |-> [x \in {} |-> 0]]
VARIABLES ivar, cache, ctx, nctx, heap, nobj, alive, objOf, lastKind, owner, okind, mm, hm, nmm, mmc, exp, hist
\* objOf[b][v][m]: object referenced by builder b's method mocker (m.imp) for (v, m)
\* lastKind[b][v][m]: kind of the last instruction given through builder b's handle for (v, m)
\* owner[v]: the builder that mocks v ("" = nobody yet). Two builders on the SAME variable are outside the
\* statement (the second builder backs up and replaces the first one's fabricated value), cf. C02/C11.
\* okind[o]: how replacement o answers: "apply"/"stub" for every argument, "when" only for the argument it was given (7)
\* mm[b][v][m]: id of the method mocker registered for m in b's cached interface mocker of v (0 none); hm: the one the
\* test's kept method handle refers to; mmc: cancelled method mockers
vars == <<ivar, cache, ctx, nctx, heap, nobj, alive, objOf, lastKind, owner, okind, mm, hm, nmm, mmc, exp, hist>>

Meths == UNION {M[v] : v \in V}
Init == /\ ivar = [v \in V |-> "orig"]
        /\ cache = [b \in B |-> [v \in V |-> 0]]
        /\ ctx = <<>>
        /\ nctx = 0
        /\ heap = {} /\ nobj = 0
        /\ alive = [b \in B |-> TRUE]
        /\ objOf = [b \in B |-> [v \in V |-> [m \in Meths |-> 0]]]
        /\ owner = [v \in V |-> ""]
        /\ okind = <<>>
        /\ lastKind = [b \in B |-> [v \in V |-> [m \in Meths |-> "none"]]]
        /\ mm = [b \in B |-> [v \in V |-> [m \in Meths |-> 0]]] /\ hm = mm /\ nmm = 0 /\ mmc = {}
        /\ exp = [v \in V |-> Orig]
        /\ hist = <<>>

Log(r) == hist' = Append(hist, r)
ObsVar(e) == [v \in V |-> IF e[v].orig THEN "orig" ELSE "fake"]

\* b.Interface(&v).Method(m).<Apply | As().Return | As().When(7).Return>: kind "apply", "stub" or "when".
\* via: "lookup"  b.Interface(&v).Method(m) written out again (a cancelled cached mocker is replaced by a fresh one),
\*      "heldI"   through the value b.Interface(&v) returned earlier (hi.Method(m)...), also after a Reset,
\*      "heldM"   through the value ....Method(m) returned earlier, while it is still the registered mocker of m.
\* A kept handle works on the SAME context; a mock applied through a cancelled context re-activates it with a new
\* method table holding only this method (proxy.Interface; re-activation since the fix of F26).
\* A second As().Return on a handle that already has a stub only extends that stub's When object (nothing is
\* re-applied); like the bare Return of C12 the property text does not say what that means: result "free" (-1).
Mock(b, v, m, kind, via) ==
    /\ "Mock" \in Ops /\ alive[b] /\ m \in M[v] /\ owner[v] \in {"", b}
    /\ via \in (IF "Held" \in Ops THEN {"lookup", "heldI", "heldM"} ELSE {"lookup"})
    /\ via = "heldI" => cache[b][v] # 0
    /\ via = "heldM" => (cache[b][v] # 0 /\ hm[b][v][m] # 0 /\ hm[b][v][m] = mm[b][v][m])
    /\ owner' = [owner EXCEPT ![v] = b]
    /\ LET fresh == via = "lookup" /\ (cache[b][v] = 0 \/ ctx[cache[b][v]].canceled)
           newmm == via # "heldM" /\ (fresh \/ mm[b][v][m] = 0 \/ mm[b][v][m] \in mmc)
           id == IF newmm THEN nmm + 1 ELSE mm[b][v][m]
           hasWhen == ~newmm /\ lastKind[b][v][m] \in {"stub", "when", "seq"} IN
       /\ nmm' = IF newmm THEN nmm + 1 ELSE nmm
       /\ mm' = IF fresh THEN [mm EXCEPT ![b][v] = [x \in Meths |-> IF x = m THEN id ELSE 0]] ELSE [mm EXCEPT ![b][v][m] = id]
       /\ hm' = [hm EXCEPT ![b][v][m] = id]
       /\ UNCHANGED mmc
       /\ IF hasWhen /\ kind \in {"stub", "when", "seq"}
          THEN /\ exp' = [exp EXCEPT ![v] = IF @.orig THEN @ ELSE [@ EXCEPT !.f[m] = -1]]
               /\ UNCHANGED <<ivar, cache, ctx, nctx, heap, nobj, alive, objOf, lastKind, okind>>
               /\ Log([op |-> "Mock", b |-> b, v |-> v, m |-> m, kind |-> kind, via |-> via, id |-> nobj, obs |-> ObsVar(exp'), panic |-> ""])
          ELSE
          LET c == IF fresh THEN nctx + 1 ELSE cache[b][v] IN
          LET o == nobj + 1 IN
          LET c0 == IF fresh THEN [backup |-> "unset", canceled |-> FALSE, fun |-> [x \in Meths |-> 0], keep |-> {}, var |-> v]
                    ELSE ctx[c] IN
          LET c1 == IF c0.backup = "taken" /\ ~c0.canceled
                    THEN [c0 EXCEPT !.fun[m] = o, !.keep = @ \cup {o}]
                    ELSE [c0 EXCEPT !.backup = "taken", !.canceled = FALSE, !.fun = [x \in Meths |-> IF x = m THEN o ELSE 0], !.keep = @ \cup {o}] IN
          /\ nctx' = IF fresh THEN nctx + 1 ELSE nctx
          /\ ctx' = IF fresh THEN Append(ctx, c1) ELSE [ctx EXCEPT ![c] = c1]
          /\ cache' = [cache EXCEPT ![b][v] = c]
          /\ nobj' = o /\ heap' = heap \cup {o} /\ okind' = Append(okind, kind)
          /\ objOf' = [objOf EXCEPT ![b][v][m] = o]
          /\ lastKind' = IF fresh THEN [lastKind EXCEPT ![b][v] = [x \in Meths |-> IF x = m THEN kind ELSE "none"]]
                         ELSE [lastKind EXCEPT ![b][v][m] = kind]
          /\ ivar' = [ivar EXCEPT ![v] = "fake"]
          /\ exp' = [exp EXCEPT ![v] = IF @.orig THEN [orig |-> FALSE, f |-> [x \in Meths |-> IF x = m THEN o ELSE 0]]
                                        ELSE [@ EXCEPT !.f[m] = o]]
          /\ UNCHANGED alive
          /\ Log([op |-> "Mock", b |-> b, v |-> v, m |-> m, kind |-> kind, via |-> via, id |-> o, obs |-> ObsVar(exp'), panic |-> ""])

\* Builder.Reset: every registered method mocker of every cached interface mocker is cancelled (its When dropped) and
\* the context with it: the backup is written back
Reset(b) ==
    /\ "Reset" \in Ops /\ alive[b]
    /\ LET C == {cache[b][v] : v \in V} \ {0} IN
       /\ ctx' = [i \in 1..Len(ctx) |-> IF i \in C THEN [ctx[i] EXCEPT !.canceled = TRUE] ELSE ctx[i]]
       /\ ivar' = [v \in V |-> IF cache[b][v] # 0 /\ ctx[cache[b][v]].backup = "taken" THEN "orig" ELSE ivar[v]]
       /\ exp' = [v \in V |-> IF cache[b][v] # 0 /\ ctx[cache[b][v]].backup = "taken" THEN Orig ELSE exp[v]]
    /\ mmc' = mmc \cup ({mm[b][v][m] : v \in V, m \in Meths} \ {0})
    /\ lastKind' = [lastKind EXCEPT ![b] = [v \in V |-> [m \in Meths |-> "none"]]]
    /\ UNCHANGED <<cache, nctx, heap, nobj, alive, objOf, owner, okind, mm, hm, nmm>>
    /\ Log([op |-> "Reset", b |-> b, obs |-> ObsVar(exp'), panic |-> ""])

\* the test drops every reference to the builder and its handles
Drop(b) == /\ "Drop" \in Ops /\ alive[b]
           /\ alive' = [alive EXCEPT ![b] = FALSE]
           /\ UNCHANGED <<ivar, cache, ctx, nctx, heap, nobj, objOf, lastKind, owner, okind, mm, hm, nmm, mmc, exp>>
           /\ Log([op |-> "Drop", b |-> b, obs |-> ObsVar(exp), panic |-> ""])

\* a collection: objects reachable from a live builder's mockers, or from a context that a variable still holds
Reachable == {objOf[b][v][m] : b \in {x \in B : alive[x]}, v \in V, m \in Meths}
             \cup UNION {ctx[i].keep : i \in {j \in 1..Len(ctx) : ivar[ctx[j].var] = "fake" /\ ~ctx[j].canceled}}
             \cup UNION {UNION {ctx[cache[b][v]].keep : v \in {y \in V : cache[b][y] # 0}} : b \in {x \in B : alive[x]}}
GC == /\ "GC" \in Ops
      /\ heap' = heap \cap Reachable
      /\ UNCHANGED <<ivar, cache, ctx, nctx, nobj, alive, objOf, lastKind, owner, okind, mm, hm, nmm, mmc, exp>>
      /\ Log([op |-> "GC", obs |-> ObsVar(exp), panic |-> ""])

\* the context the variable's fabricated itab belongs to
CtxOf(v) == CHOOSE i \in 1..Len(ctx) : ctx[i].var = v /\ ~ctx[i].canceled /\ \A j \in 1..Len(ctx) : (ctx[j].var = v /\ ~ctx[j].canceled) => j <= i
\* kind "seq": As(f).Returns(r1, r2) - the first call that reaches the stub receives r1, every later one r2 (C05); okind[o]
\* changes from "seq" to "seq-used" with the first call
Answer(o, a) == IF okind[o] = "when" /\ a # 7 THEN "panic:nocond"
                ELSE IF okind[o] = "seq-used" THEN "seq2:" \o ToString(o) ELSE "repl:" \o ToString(o)
ImplCall(v, m, a) == IF ivar[v] = "orig" THEN "orig"
                  ELSE LET o == ctx[CtxOf(v)].fun[m] IN
                       IF o = 0 THEN "panic:notimpl" ELSE IF o \in heap THEN Answer(o, a) ELSE "crash"
ReqCall(v, m, a) == IF exp[v].orig THEN "orig"
                 ELSE IF exp[v].f[m] = -1 THEN "free"
                 ELSE IF exp[v].f[m] = 0 THEN "panic:notimpl" ELSE Answer(exp[v].f[m], a)
Call(v, m, a) == /\ "Call" \in Ops /\ m \in M[v]
              /\ Log([op |-> "Call", v |-> v, m |-> m, a |-> a, res |-> ReqCall(v, m, a), ires |-> ImplCall(v, m, a), obs |-> ObsVar(exp), panic |-> ""])
              /\ okind' = (IF ~exp[v].orig /\ exp[v].f[m] > 0 /\ okind[exp[v].f[m]] = "seq" THEN [okind EXCEPT ![exp[v].f[m]] = "seq-used"] ELSE okind)
              /\ UNCHANGED <<ivar, cache, ctx, nctx, heap, nobj, alive, objOf, lastKind, owner, mm, hm, nmm, mmc, exp>>

Finish == Len(hist) = MaxOps /\ hist' = Append(hist, [op |-> "End"]) /\ UNCHANGED <<ivar, cache, ctx, nctx, heap, nobj, alive, objOf, lastKind, owner, okind, mm, hm, nmm, mmc, exp>>
Next == \/ Finish
        \/ /\ Len(hist) < MaxOps
           /\ \/ \E b \in B, v \in V, m \in Meths, k \in Kinds, via \in {"lookup", "heldI", "heldM"} : Mock(b, v, m, k, via)
              \/ \E b \in B : Reset(b) \/ Drop(b)
              \/ GC
              \/ \E v \in V, m \in Meths, a \in Args : Call(v, m, a)
Spec == Init /\ [][Next]_vars

Last == hist[Len(hist)]
CallsConform == (Len(hist) > 0 /\ Last.op = "Call" /\ Last.res # "free") => Last.ires = Last.res
VarsConform == \A v \in V : exp[v].orig = (ivar[v] = "orig")
\* every object a callable stub jumps through is alive
NoDangling == \A v \in V : ivar[v] = "fake" => \A m \in M[v] : LET o == ctx[CtxOf(v)].fun[m] IN o = 0 \/ o \in heap
View == <<ivar, cache, ctx, nctx, heap, nobj, alive, objOf, lastKind, owner, okind, mm, hm, nmm, mmc, exp, Len(hist)>>
Emit == Len(hist) = MaxOps + 1 => PrintT(ToJson(SubSeq(hist, 1, MaxOps)))
=============================================================================
