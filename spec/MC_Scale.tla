---- MODULE MC_Scale ----
EXTENDS Scale
GN == {"all", "odd", "first16", "first17", "one17", "tail", "mid"}
G64 == [g \in GN |-> CASE g = "all" -> 1..64
                       [] g = "odd" -> {i \in 1..64 : i % 2 = 1}
                       [] g = "first16" -> 1..16
                       [] g = "first17" -> 1..17
                       [] g = "one17" -> {17}
                       [] g = "tail" -> 48..64
                       [] g = "mid" -> 20..40]
\* a small instance for exhaustive model checking of the requirement itself
GNs == {"all", "lo", "one"}
G4 == [g \in GNs |-> CASE g = "all" -> 1..4 [] g = "lo" -> 1..2 [] g = "one" -> {3}]
====
