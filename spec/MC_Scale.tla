---- MODULE MC_Scale ----
EXTENDS Scale
GN == {"all", "odd", "first16", "first17", "one17", "tail", "mid"}
G64 == [g \in GN |-> CASE g = "all" -> 1..64
                       [] g = "odd" -> {i \in 1..64 : i % 2 = 1}
                       [] g = "first16" -> 1..16
                       [] g = "first17" -> 1..17
                       [] g = "one17" -> {17}
                       [] g = "tail" -> 48..64
                       [] g = "mid" -> 20..40]
ObjF == [i \in 1..64 |-> i]
\* interface instance: 12 variables x 12 methods (144 stubs of 48 bytes: more than one page of stub space); target (v, m) = (v - 1) * 12 + m
NI == 144
VarOf(i) == ((i - 1) \div 12) + 1
MethOf(i) == ((i - 1) % 12) + 1
ObjI == [i \in 1..NI |-> VarOf(i)]
GNI == {"all", "meth1", "meth12", "var7", "vars9", "diag", "oddvars", "two"}
GI == [g \in GNI |-> CASE g = "all" -> 1..NI
                        [] g = "meth1" -> {i \in 1..NI : MethOf(i) = 1}
                        [] g = "meth12" -> {i \in 1..NI : MethOf(i) = 12}
                        [] g = "var7" -> {i \in 1..NI : VarOf(i) = 7}
                        [] g = "vars9" -> {i \in 1..NI : VarOf(i) <= 9 /\ MethOf(i) \in {2, 7}}
                        [] g = "diag" -> {i \in 1..NI : MethOf(i) = ((VarOf(i) - 1) % 12) + 1}
                        [] g = "oddvars" -> {i \in 1..NI : VarOf(i) % 2 = 1 /\ MethOf(i) \in {1, 6, 12}}
                        [] g = "two" -> {i \in 1..NI : VarOf(i) \in {3, 12} /\ MethOf(i) \in {5, 11}}]
\* a small instance for exhaustive model checking of the requirement itself
GNs == {"all", "lo", "one"}
G4 == [g \in GNs |-> CASE g = "all" -> 1..4 [] g = "lo" -> 1..2 [] g = "one" -> {3}]
Obj4 == [i \in 1..4 |-> i]
Obj4I == [i \in 1..4 |-> (i + 1) \div 2]          \* two objects of two targets each
====
