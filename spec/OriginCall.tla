------------------------------ MODULE OriginCall ------------------------------
(* C03, control flow of a call that reaches the origin placeholder of a mocked function t.
   Code locations:  tramp (relocated prologue in the placeholder) -> body of t
                    tramp -> morestack block of t (when the stack check in the relocated prologue fails)
                    morestack block -> entry of t (JMP back to the function's first byte, after the stack grew)
                    entry of t = the patched jump -> mock (the replacement callback)
   The replacement of this scenario calls the placeholder once and adds a marker to its result.
   Requirement: a call of the placeholder has exactly the effect of the un-mocked function: it never
   enters the mock.
   The Morestack action is the known deviation F5: every split-stack prologue ends in `JMP entry`, and
   the entry is the patched one. *)
EXTENDS Integers, Sequences, TLC, Json

CONSTANTS SplitStack,     \* BOOLEAN: t has a stack-check prologue
          Via             \* "mock": the harness calls t (mocked);  "ph": the harness calls the placeholder directly

VARIABLES stack,   \* sequence of frames, innermost last: [at |-> location]
          mocks,   \* number of times the replacement was entered
          head,    \* headroom at the next stack check: "enough" / "low"
          result, dev
vars == <<stack, mocks, head, result, dev>>

Init == /\ stack = <<[at |-> IF Via = "mock" THEN "entry" ELSE "tramp"]>>
        /\ mocks = 0 /\ head \in {"enough", "low"} /\ result = "none" /\ dev = {}

Top == stack[Len(stack)]
At(l) == stack # <<>> /\ Top.at = l
Goto(l) == stack' = [stack EXCEPT ![Len(stack)].at = l]

Entry == /\ At("entry") /\ Goto("mock") /\ mocks' = mocks + 1 /\ UNCHANGED <<head, result, dev>>
\* the replacement calls the placeholder: push a frame at the trampoline
MockCalls == /\ At("mock") /\ stack' = Append(stack, [at |-> "tramp"]) /\ UNCHANGED <<mocks, head, result, dev>>
TrampOk == /\ At("tramp") /\ (head = "enough" \/ ~SplitStack) /\ Goto("body") /\ UNCHANGED <<mocks, head, result, dev>>
\* known deviation F5
Morestack == /\ At("tramp") /\ head = "low" /\ SplitStack
             /\ Goto("entry") /\ head' = "enough" /\ dev' = dev \cup {"F5"} /\ UNCHANGED <<mocks, result>>
\* the body returns the original result to whoever called this frame
BodyRet == /\ At("body")
           /\ IF Len(stack) = 1 THEN result' = "orig" /\ stack' = <<>>
              ELSE result' = result /\ stack' = [SubSeq(stack, 1, Len(stack) - 1) EXCEPT ![Len(stack) - 1].at = "mockret:orig"]
           /\ UNCHANGED <<mocks, head, dev>>
\* the replacement returns marker + what the placeholder gave it
MockRet(x) == /\ At("mockret:" \o x)
              /\ IF Len(stack) = 1 THEN result' = "cbo+" \o x /\ stack' = <<>>
                 ELSE result' = result /\ stack' = [SubSeq(stack, 1, Len(stack) - 1) EXCEPT ![Len(stack) - 1].at = "mockret:cbo+" \o x]
              /\ UNCHANGED <<mocks, head, dev>>
Next == Entry \/ MockCalls \/ TrampOk \/ Morestack \/ BodyRet \/ MockRet("orig") \/ MockRet("cbo+orig")
Spec == Init /\ [][Next]_vars

Done == stack = <<>>
\* requirement: the placeholder is the un-mocked function
Required == Done => /\ result = (IF Via = "mock" THEN "cbo+orig" ELSE "orig")
                    /\ mocks = (IF Via = "mock" THEN 1 ELSE 0)
\* what the mechanism can do: the requirement, or (tagged) the F5 outcome
ConformsUpToF5 == Done => (dev = {} => (result = (IF Via = "mock" THEN "cbo+orig" ELSE "orig")))
OnlyF5 == dev \subseteq {"F5"}
F5Outcome == (Done /\ dev = {"F5"}) => /\ result = (IF Via = "mock" THEN "cbo+cbo+orig" ELSE "cbo+orig")
                                        /\ mocks = (IF Via = "mock" THEN 2 ELSE 1)
\* the table of terminal outcomes (oracle for the recorded calls of the depth sweep)
Emit == Done => PrintT(ToJson([via |-> Via, split |-> SplitStack, result |-> result, mocks |-> mocks, dev |-> dev]))
=============================================================================
