SPECIFICATION Spec
CONSTANTS TraceFile = "trace.ndjson"
CONSTRAINT Done
CHECK_DEADLOCK FALSE
