----------------------------- MODULE Trace_MemWrite -----------------------------
(* Direction B for C14.  Two kinds of records:
   "write": one real memory.WriteTo(addr, data) observed through the mem.* hooks (all under memoryAccessLock):
        off/len        position inside a 3-page window (page size 4096) and length
        p_locked, p_rwx, p_copied, p_rx, p_after   protections of the 3 window pages at each hook point (r=4 + w=2 + x=1)
        changed        [lo, hi) of the bytes of the window that differ afterwards (relative), or [0,0]
        intact         the written range holds exactly the data
   "func": one function of the binary as a prospective target:
        slot (next entry - entry), scanned (goom's extent scan), accepted (genJumpData succeeded)
   Each "write" record is mapped onto the states of spec MemWrite (page size 4096, 3 pages) and the spec's
   requirements are evaluated on it. *)
EXTENDS Integers, Sequences, FiniteSets, TLC, Json
CONSTANT TraceFile
Trace == ndJsonDeserialize(TraceFile)
VARIABLES l, bad, nok
PS == 4096
Cov(off, n) == {c \div PS : c \in {off, off + n - 1}} \cup {p \in 0..2 : off \div PS < p /\ p < (off + n - 1) \div PS}
HasX(s) == s % 2 = 1        \* protections as r=4 + w=2 + x=1
JudgeWrite(e) ==
    LET cov == Cov(e.off, e.len) IN
    IF \E i \in 1..3 : ~(HasX(e.p_locked[i]) /\ HasX(e.p_rwx[i]) /\ HasX(e.p_copied[i]) /\ HasX(e.p_rx[i]) /\ HasX(e.p_after[i])) THEN "V:page-lost-execute"
    ELSE IF \E i \in 1..3 : (i - 1) \notin cov /\ (e.p_rwx[i] # e.p_locked[i] \/ e.p_copied[i] # e.p_locked[i] \/ e.p_rx[i] # e.p_locked[i] \/ e.p_after[i] # e.p_locked[i]) THEN "V:uncovered-page-protection-changed"
    ELSE IF \E i \in 1..3 : (i - 1) \in cov /\ (e.p_rwx[i] # 7 \/ e.p_copied[i] # 7) THEN "V:covered-page-not-writable-during-copy"
    ELSE IF \E i \in 1..3 : e.p_rx[i] # 5 \/ e.p_after[i] # 5 THEN "V:page-left-writable"
    ELSE IF ~e.intact THEN "V:data-not-written-intact"
    ELSE IF e.changed # <<0, 0>> /\ ~(e.changed[1] >= e.off /\ e.changed[2] <= e.off + e.len) THEN "V:bytes-outside-range-changed"
    ELSE "ok"
JudgeFunc(e) == IF e.accepted /\ e.slot < 13 THEN "V:target-shorter-than-jump-accepted" ELSE "ok"
Judge(e) == IF e.ev = "write" THEN JudgeWrite(e) ELSE IF e.ev = "func" THEN JudgeFunc(e) ELSE "V:unknown-event"
Init == l = 1 /\ bad = <<>> /\ nok = 0
Next == /\ l <= Len(Trace)
        /\ LET v == Judge(Trace[l]) IN
           /\ bad' = IF v = "ok" \/ Len(bad) >= 40 THEN bad ELSE Append(bad, <<v, l>>)
           /\ nok' = nok + (IF v = "ok" THEN 1 ELSE 0)
        /\ l' = l + 1
Spec == Init /\ [][Next]_<<l, bad, nok>>
Done == (l = Len(Trace) + 1) => PrintT(ToJson([summary |-> TRUE, nok |-> nok, bad |-> bad]))
Accepted == TLCGet("stats").diameter - 1 = Len(Trace)
=============================================================================
