SPECIFICATION Spec
INVARIANT Inv
