---- MODULE MC_StubAlloc ----
EXTENDS StubAlloc, TLC, Json
Emit == AllDone => PrintT(ToJson(hist))
====
