SPECIFICATION Spec
CONSTANTS C = {1, 2, 3, 4}
INVARIANT Symmetric
INVARIANT Reflexive
INVARIANT InIsUnion
INVARIANT InSingleton
INVARIANT AnyAll
