---- MODULE MC_Conc ----
EXTENDS Conc
PO2 == (1 :> 0 @@ 2 :> 0)
PO3 == (1 :> 0 @@ 2 :> 0 @@ 3 :> 1)
====
