SPECIFICATION Spec
CONSTANTS
  MaxGroups = 2
  Rep = 5
  ParamTypes = {"int", "float64", "string", "slice", "iface", "struct2", "struct5", "array2", "int8", "func", "ptr"}
  ResultTypes = {"int", "float64", "string", "struct5", "iface"}
INVARIANT NoClobber
CONSTRAINT Emit
CHECK_DEADLOCK FALSE
