------------------------------ MODULE Trace_Seq ------------------------------
(* Trace validation for C05 (direction B): a recorded trace of racing callers
   (start(g) / end(g, v) events ordered by a global atomic ticket taken before the call and
   after the return) is accepted iff some interleaving of the unlogged internal steps
   Load / Add / Ret / RetLast of spec Seq explains every returned element. *)
EXTENDS Seq
CONSTANT TraceFile
Trace == ndJsonDeserialize(TraceFile)

VARIABLES l, phase, ret
tvars == <<vars, l, phase, ret>>

TInit == /\ Init /\ TLCSet(1, 0)
         /\ l = 1
         /\ phase = [g \in G |-> "idle"]
         /\ ret = [g \in G |-> -1]

IsEv(e) == l <= Len(Trace) /\ Trace[l].ev = e

EvStart == /\ IsEv("start")
           /\ LET g == Trace[l].g IN phase[g] = "idle" /\ phase' = [phase EXCEPT ![g] = "begun"]
           /\ l' = l + 1 /\ UNCHANGED <<vars, ret>>

\* silent steps of the implementation, re-using the actions of Seq
SilentLoad(g) == phase[g] = "begun" /\ Load(g) /\ UNCHANGED <<l, phase, ret>>
SilentAdd(g) == phase[g] = "begun" /\ Add(g) /\ UNCHANGED <<l, phase, ret>>
SilentFinish(g) == /\ phase[g] = "begun"
                   /\ (Ret(g) \/ RetLast(g))
                   /\ phase' = [phase EXCEPT ![g] = "finished"]
                   /\ ret' = [ret EXCEPT ![g] = retd'[Len(retd')].idx]
                   /\ UNCHANGED l

EvEnd == /\ IsEv("end")
         /\ LET g == Trace[l].g IN
              /\ phase[g] = "finished" /\ ret[g] = Trace[l].v
              /\ phase' = [phase EXCEPT ![g] = "idle"]
         /\ l' = l + 1 /\ UNCHANGED <<vars, ret>>

\* a new stub (fresh cursor) between rounds
EvReset == /\ IsEv("reset") /\ \A g \in G : phase[g] = "idle"
           /\ curNum' = 0 /\ retd' = <<>> /\ hist' = <<>>
           /\ l' = l + 1 /\ UNCHANGED <<pc, loc, done, started, phase, ret>>

TNext == EvStart \/ EvEnd \/ EvReset \/ \E g \in G : SilentLoad(g) \/ SilentAdd(g) \/ SilentFinish(g)
TSpec == TInit /\ [][TNext]_tvars

HighWater == IF l > TLCGet(1) THEN TLCSet(1, l) ELSE TRUE
Accepted == TLCGet(1) = Len(Trace) + 1
TView == <<l, curNum, pc, loc, phase, ret>>
=============================================================================
