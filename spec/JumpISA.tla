------------------------------- MODULE JumpISA -------------------------------
(* C15: micro-semantics of the only instruction forms goom emits, as an interpreter over bytes.
   64-bit values are 4 lanes of 16 bits (least significant first) because TLC integers are 32 bit.

   amd64:  90                nop
           48 BA imm64       movabs rdx, imm64
           FF 22             jmp qword ptr [rdx]      -> control goes to mem[rdx]   ("ind")
           FF E2             jmp rdx                  -> control goes to rdx        ("abs")
           E9 rel32          jmp rel32                -> control goes to from+pos+5+sext(rel32) ("abs")
   arm64:  MOVZ/MOVK Xd,#imm16,LSL #(16*hw) ; LDR Xt,[Xn] ; BR Xn

   Exec(arch, bytes, from) = [ok, how ("ind"/"abs"), addr (lanes), ctx (lanes of the context register
   RDX / X26, or <<>> if never written), written (registers written)].

   Requirements (what C15 states), per kind of emitted sequence:
     entry / iface (divert a function / enter an interface stub through a func value fv):
         control goes THROUGH fv (to the code address stored at fv) with the context register = fv,
         and no other register is written (amd64) / X26 = fv before the indirect branch (arm64)
     origin (return from a trampoline to code address `to`):
         control goes TO `to` itself, in the relative or the absolute form *)
EXTENDS Integers, Sequences, FiniteSets, TLC

Lanes(b, i) == <<b[i] + 256 * b[i+1], b[i+2] + 256 * b[i+3], b[i+4] + 256 * b[i+5], b[i+6] + 256 * b[i+7]>>
Zero64 == <<0, 0, 0, 0>>

\* 64-bit addition of lanes x and a signed 32-bit-ish quantity given as lanes y (two's complement), mod 2^64
AddL(x, y) == LET s0 == x[1] + y[1] IN LET c0 == s0 \div 65536 IN
              LET s1 == x[2] + y[2] + c0 IN LET c1 == s1 \div 65536 IN
              LET s2 == x[3] + y[3] + c1 IN LET c2 == s2 \div 65536 IN
              LET s3 == x[4] + y[4] + c2 IN
              <<s0 % 65536, s1 % 65536, s2 % 65536, s3 % 65536>>
Small(n) == <<n, 0, 0, 0>>                     \* 0 <= n < 65536
\* sign-extended rel32 given as 4 bytes
Sext32(b, i) == LET lo == b[i] + 256 * b[i+1] IN LET hi == b[i+2] + 256 * b[i+3] IN
                IF hi >= 32768 THEN <<lo, hi, 65535, 65535>> ELSE <<lo, hi, 0, 0>>

Bad == [ok |-> FALSE, how |-> "none", addr |-> Zero64, ctx |-> <<>>, written |-> {}]

RECURSIVE X86(_, _, _, _, _)
X86(b, pos, from, rdx, fuel) ==      \* pos: 1-based index of the next instruction byte
    IF fuel = 0 \/ pos > Len(b) THEN Bad
    ELSE IF b[pos] = 144 THEN X86(b, pos + 1, from, rdx, fuel - 1)
    ELSE IF b[pos] = 72 /\ pos + 9 <= Len(b) /\ b[pos+1] = 186
         THEN X86(b, pos + 10, from, Lanes(b, pos + 2), fuel - 1)
    ELSE IF b[pos] = 255 /\ pos + 1 <= Len(b) /\ b[pos+1] = 34 /\ rdx # <<>>
         THEN [ok |-> TRUE, how |-> "ind", addr |-> rdx, ctx |-> rdx, written |-> {"rdx"}]
    ELSE IF b[pos] = 255 /\ pos + 1 <= Len(b) /\ b[pos+1] = 226 /\ rdx # <<>>
         THEN [ok |-> TRUE, how |-> "abs", addr |-> rdx, ctx |-> rdx, written |-> {"rdx"}]
    ELSE IF b[pos] = 233 /\ pos + 4 <= Len(b)
         THEN [ok |-> TRUE, how |-> "abs", addr |-> AddL(AddL(from, Small(pos - 1 + 5)), Sext32(b, pos + 1)),
               ctx |-> rdx, written |-> IF rdx = <<>> THEN {} ELSE {"rdx"}]
    ELSE Bad

\* ---- arm64 ----
Word(b, i) == [b0 |-> b[i], b1 |-> b[i+1], b2 |-> b[i+2], b3 |-> b[i+3]]
IsMovWide(w) == w.b3 % 32 = 18 /\ w.b2 \div 128 = 1 /\ w.b3 \div 128 = 1      \* sf=1, bits 28..23 = 100101
MovOpc(w) == (w.b3 \div 32) % 4                                               \* 2 = MOVZ, 3 = MOVK
MovHw(w) == (w.b2 \div 32) % 4
MovImm(w) == (w.b0 \div 32) + 8 * w.b1 + 2048 * (w.b2 % 32)
MovRd(w) == w.b0 % 32
IsLdr(w) == w.b3 = 249 /\ w.b2 = 64 /\ w.b1 < 4                              \* LDR Xt,[Xn,#0]
LdrRn(w) == (w.b0 \div 32) + 8 * w.b1
LdrRt(w) == w.b0 % 32
IsBr(w) == w.b3 = 214 /\ w.b2 = 31 /\ w.b1 < 4 /\ w.b0 % 32 = 0
BrRn(w) == (w.b0 \div 32) + 8 * w.b1

RECURSIVE A64(_, _, _, _, _)
\* regs: function from register number to lanes for registers written so far; loaded: [rt, from] or <<>>
A64(b, pos, regs, loaded, fuel) ==
    IF fuel = 0 \/ pos + 3 > Len(b) THEN Bad
    ELSE LET w == Word(b, pos) IN
      IF IsMovWide(w) /\ MovOpc(w) = 2
      THEN A64(b, pos + 4, [r \in DOMAIN regs \cup {MovRd(w)} |->
                               IF r = MovRd(w) THEN [i \in 1..4 |-> IF i = MovHw(w) + 1 THEN MovImm(w) ELSE 0] ELSE regs[r]],
               loaded, fuel - 1)
      ELSE IF IsMovWide(w) /\ MovOpc(w) = 3 /\ MovRd(w) \in DOMAIN regs
      THEN A64(b, pos + 4, [regs EXCEPT ![MovRd(w)] = [@ EXCEPT ![MovHw(w) + 1] = MovImm(w)]], loaded, fuel - 1)
      ELSE IF IsLdr(w) /\ LdrRn(w) \in DOMAIN regs
      THEN A64(b, pos + 4, regs, <<LdrRt(w), LdrRn(w)>>, fuel - 1)
      ELSE IF IsBr(w) /\ loaded # <<>> /\ BrRn(w) = loaded[1]
      THEN [ok |-> TRUE, how |-> "ind", addr |-> regs[loaded[2]],
            ctx |-> IF 26 \in DOMAIN regs THEN regs[26] ELSE <<>>,
            written |-> {r \in DOMAIN regs : TRUE} \cup {loaded[1]}]
      ELSE Bad

Exec(arch, b, from) == IF arch = "amd64" THEN X86(b, 1, from, <<>>, 8)
                       ELSE A64(b, 1, <<>>, <<>>, 8)

\* ---- requirements ----
ThroughOk(arch, b, from, fv) ==
    LET r == Exec(arch, b, from) IN
    /\ r.ok /\ r.how = "ind" /\ r.addr = fv /\ r.ctx = fv
    /\ (arch = "amd64" => r.written = {"rdx"})
ToOk(arch, b, from, to) ==
    LET r == Exec(arch, b, from) IN r.ok /\ r.how = "abs" /\ r.addr = to

Verdict(e) == IF e.kind \in {"entry", "iface"} THEN (IF ThroughOk(e.arch, e.bytes, e.from, e.to) THEN "ok" ELSE "bad-through")
              ELSE IF e.kind = "origin" THEN (IF ToOk(e.arch, e.bytes, e.from, e.to) THEN "ok" ELSE "bad-to")
              ELSE "unknown-kind"

\* ---- requirement-level emitters (design check: the interpreter accepts what it should) ----
B2(l) == <<l % 256, l \div 256>>
Imm64(x) == B2(x[1]) \o B2(x[2]) \o B2(x[3]) \o B2(x[4])
EmitThroughX86(fv) == <<144, 72, 186>> \o Imm64(fv) \o <<255, 34>>
EmitToAbsX86(to) == <<72, 186>> \o Imm64(to) \o <<255, 226>>
MovW(opc, hw, imm, rd) == LET v == rd + 32 * imm + 2097152 * hw IN     \* low 23 bits; bit23=1, b3 = 1 opc 10010
                          <<v % 256, (v \div 256) % 256, 128 + ((v \div 65536) % 128), 128 + 32 * opc + 18>>
EmitThroughA64(fv, rt) == MovW(2, 0, fv[1], 26) \o MovW(3, 1, fv[2], 26) \o MovW(3, 2, fv[3], 26) \o MovW(3, 3, fv[4], 26)
                          \o <<(26 % 8) * 32 + rt, 26 \div 8, 64, 249>> \o <<(rt % 8) * 32, rt \div 8, 31, 214>>
=============================================================================
