------------------------------- MODULE MemWrite -------------------------------
(* C14: memory.WriteTo(addr, data) on the executable image.  The image is a row of cells grouped in pages;
   every page has a protection.  One write is the critical section (memoryAccessLock held throughout):

       Lock ; ProtRWX(p) for every covered page, ascending ; Copy ; ProtRX(p) for every covered page ; Unlock

   State is visible to other threads between any two steps (they keep executing code of these pages), so
   the requirements are checked in EVERY state, not only at the end:
     XNeverDropped   every page stays executable throughout
     OnlyCovered     only pages that contain a byte of [addr, addr+len) ever change protection
     ExactBytes      after Copy exactly the cells of [addr, addr+len) hold the new data, all others are unchanged
     NoWriteLeft     after Unlock no page is writable *)
EXTENDS Integers, Sequences, FiniteSets, TLC

CONSTANTS PageSize, NPages, MaxLen
Cells == 0..(PageSize * NPages - 1)
Pages == 0..(NPages - 1)
PageOf(c) == c \div PageSize
Covered(a, n) == {PageOf(c) : c \in a..(a + n - 1)}

VARIABLES mem, perm, pc, addr, len, todo, lock
vars == <<mem, perm, pc, addr, len, todo, lock>>

Init == /\ mem = [c \in Cells |-> "old"]
        /\ perm = [p \in Pages |-> {"r", "x"}]
        /\ pc = "idle" /\ addr = 0 /\ len = 0 /\ todo = {} /\ lock = FALSE

Start(a, n) == /\ pc = "idle" /\ a + n - 1 \in Cells
               /\ lock' = TRUE /\ addr' = a /\ len' = n /\ todo' = Covered(a, n) /\ pc' = "rwx"
               /\ UNCHANGED <<mem, perm>>
Lowest(S) == CHOOSE p \in S : \A q \in S : p <= q
ProtRWX == /\ pc = "rwx" /\ todo # {}
           /\ perm' = [perm EXCEPT ![Lowest(todo)] = {"r", "w", "x"}]
           /\ todo' = todo \ {Lowest(todo)}
           /\ pc' = IF todo' = {} THEN "copy" ELSE "rwx"
           /\ UNCHANGED <<mem, addr, len, lock>>
Copy == /\ pc = "copy"
        /\ mem' = [c \in Cells |-> IF c \in addr..(addr + len - 1) THEN "new" ELSE mem[c]]
        /\ todo' = Covered(addr, len) /\ pc' = "rx"
        /\ UNCHANGED <<perm, addr, len, lock>>
ProtRX == /\ pc = "rx" /\ todo # {}
          /\ perm' = [perm EXCEPT ![Lowest(todo)] = {"r", "x"}]
          /\ todo' = todo \ {Lowest(todo)}
          /\ pc' = IF todo' = {} THEN "unlock" ELSE "rx"
          /\ UNCHANGED <<mem, addr, len, lock>>
Unlock == /\ pc = "unlock" /\ lock' = FALSE /\ pc' = "done" /\ UNCHANGED <<mem, perm, addr, len, todo>>

Next == (\E a \in Cells, n \in 1..MaxLen : Start(a, n)) \/ ProtRWX \/ Copy \/ ProtRX \/ Unlock
Spec == Init /\ [][Next]_vars

XNeverDropped == \A p \in Pages : "x" \in perm[p]
OnlyCovered == \A p \in Pages : perm[p] # {"r", "x"} => (pc # "idle" /\ p \in Covered(addr, len))
WritableOnlyLocked == (\E p \in Pages : "w" \in perm[p]) => lock
CopyNeedsW == (pc = "rx" \/ pc = "unlock" \/ pc = "done") => \A c \in Cells : (mem[c] = "new") = (c \in addr..(addr + len - 1))
CopyWhenWritable == pc = "copy" => \A p \in Covered(addr, len) : "w" \in perm[p]
NoWriteLeft == pc = "done" => \A p \in Pages : perm[p] = {"r", "x"}
=============================================================================
