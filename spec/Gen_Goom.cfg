SPECIFICATION Spec
CONSTANTS
  B = {"b1"}
  T = {"f", "g"}
  CB = {"c1"}
  RS <- RS_12
  A = {0, 1}
  Ops <- AllOps
  MaxOps = 3
CONSTRAINT Emit
CHECK_DEADLOCK FALSE
