SPECIFICATION Spec
CONSTANTS
  R = {"r1", "r2"}
  MaxOps = 5
INVARIANT OrigAfterTakeBack
CONSTRAINT Emit
CHECK_DEADLOCK FALSE
