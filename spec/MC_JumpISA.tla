---- MODULE MC_JumpISA ----
EXTENDS JumpISA
CONSTANT LaneVals
VARIABLE x
Addrs == {<<a, b, c, d>> : a \in LaneVals, b \in LaneVals, c \in LaneVals, d \in LaneVals}
Init == x \in Addrs
Next == UNCHANGED x
Spec == Init /\ [][Next]_x
ThroughX86 == ThroughOk("amd64", EmitThroughX86(x), Zero64, x)
ThroughA64 == ThroughOk("arm64", EmitThroughA64(x, 10), Zero64, x) /\ ThroughOk("arm64", EmitThroughA64(x, 27), Zero64, x)
ToAbs == ToOk("amd64", EmitToAbsX86(x), Zero64, x)
\* a jump THROUGH an address is never accepted as a jump TO it and vice versa
Distinguishes == ~ToOk("amd64", EmitThroughX86(x), Zero64, x) /\ ~ThroughOk("amd64", EmitToAbsX86(x), Zero64, x)
====
