-------------------------------- MODULE Goom --------------------------------
(* Lifecycle of function / method mocks: Builder lookups, Apply, Origin, Return, When,
   Returns, Cancel, Reset and calls (C01 C02 C04 C05 C06 C12 C19 share this module).

   MECHANISM LAYER (mirrors the code; one action per public call, the call's return is the
   linearization point of the sequential API):
     entry[t]     first 13 bytes of target t: P (pristine) or the func value the jump goes through
     ph[t]        body of t's origin placeholder: "P" pristine / "T" rewritten into a trampoline
     patches[t]   global patch table (internal/patch.patches): None or [fv, ob]; ob = the bytes
                  captured as "origin bytes" (a stale capture is representable)
     mk[b][t]     the mocker cached in builder b for target t:
                    ex, canceled, imp (None / cb / mf), when (None / When object), guard, origin
     When object  [def, conds, cur]: default matcher, registered condition matchers, and which
                  matcher the chained API currently points at ("nil" / "def" / "cond" = last of conds)
     matcher      [a, rs, n]: condition argument (or AnyA), result sequence, cursor
   REQUIREMENT LAYER (what the properties state, no mechanism):
     exp[t]       [k |-> "orig"] / "cb" c / "cbo" / "stub" def conds / "free"
                  "free" = the properties do not determine the call result (see DESIGN C12/C02):
                  a bare Return/Returns on a handle that already has a stub configuration, or two
                  builders holding configuration for the same target.
     cfg[b][t]    builder b has given an instruction for t since its last Cancel/Reset of t
     touched[b][t] builder b has ever given an instruction for t (never cleared); a target touched
                  by two builders is "tainted": its call results are free from then on (DESIGN C02)
     phr[t]       placeholder of t has been handed to goom ("T") or not ("P")

   Every action appends [op, args, obs, res/panic] to hist; obs is the REQUIRED passive
   observable after the step (entry of every target pristine "P" / diverted "J" / "free",
   placeholder bodies), res the REQUIRED result of an explicit call. *)
EXTENDS Integers, Sequences, FiniteSets, TLC, Json

CONSTANTS B,        \* builders
          T,        \* targets (strings)
          CB,       \* plain callbacks (strings)
          RS,       \* result sequences usable in Return/When/Returns (set of sequences of values)
          A,        \* argument values
          Ops,      \* enabled op names (alphabet of this configuration)
          MaxOps

None == [k |-> "none"]
P    == [k |-> "P"]
AnyA == -1   \* the Any() expression as a condition argument

VARIABLES entry, ph, patches, mk, exp, cfg, touched, phr, lg, hist
vars == <<entry, ph, patches, mk, exp, cfg, touched, phr, lg, hist>>

NoMk == [ex |-> FALSE, canceled |-> FALSE, imp |-> None, when |-> None, guard |-> None, origin |-> FALSE]
Orig == [k |-> "orig"]
Free == [k |-> "free"]

Init == /\ entry = [t \in T |-> P]
        /\ ph = [t \in T |-> "P"]
        /\ patches = [t \in T |-> None]
        /\ mk = [b \in B |-> [t \in T |-> NoMk]]
        /\ exp = [t \in T |-> Orig]
        /\ cfg = [b \in B |-> [t \in T |-> FALSE]]
        /\ touched = [b \in B |-> [t \in T |-> FALSE]]
        /\ phr = [t \in T |-> "P"]
        /\ lg = [console |-> "warn", level |-> "info"]
        /\ hist = <<>>

Min(x, y) == IF x < y THEN x ELSE y

-----------------------------------------------------------------------------
(* ---------------- mechanism ---------------- *)

\* Builder.Func / Struct().Method / ExportFunc: cached mocker unless canceled
GetMk(b, t) == IF mk[b][t].ex /\ ~mk[b][t].canceled THEN mk[b][t] ELSE [NoMk EXCEPT !.ex = TRUE]
\* via = "lookup": the instruction starts with a lookup in the builder (a canceled mocker is replaced by a fresh one);
\* via = "held": the test kept the mocker handle (m := b.Func(f)) and uses it again, canceled or not - it is still the
\* object in the builder's cache, so Reset reaches it. A successful apply makes a canceled mocker active again (fix 734de8f).
Vias == IF "Held" \in Ops THEN {"lookup", "held"} ELSE {"lookup"}
Handle(b, t, via) == IF via = "held" THEN mk[b][t] ELSE GetMk(b, t)
CanUse(b, t, via) == via = "lookup" \/ mk[b][t].ex

\* patch.replaceFunc + Guard.Apply: a previous patch of t is unpatched through the table (its
\* captured bytes are written back), the bytes now at the entry are captured, the jump is written.
BytesAfterUnpatch(t) == IF patches[t] # None THEN patches[t].ob ELSE entry[t]
\* debug.go interceptDebugInfo: the replacement is wrapped by a logging MakeFunc iff the console level is
\* debug AT APPLY TIME; the wrapper must be transparent (C19), so no call rule below looks at w
Wrapped == lg.console = "debug"

MfFv(b, t) == [k |-> "mf", b |-> b, t |-> t, w |-> Wrapped]

\* results of the mechanism's patch step as a record (entry', patches', guard)
PatchRec(t, fv) == LET e1 == BytesAfterUnpatch(t) IN
                   [entry |-> [entry EXCEPT ![t] = fv],
                    patches |-> [patches EXCEPT ![t] = [fv |-> fv, ob |-> e1]],
                    guard |-> [ob |-> e1]]

NewMatcher(a, rs) == [a |-> a, rs |-> rs, n |-> 0, c |-> 0]   \* n: calls served (mechanism: its cursor); c: see ReqSeq

\* chained API: add result sequence rs to whatever the When object currently points at
RECURSIVE AddResults(_, _, _)
AddResults(w, rs, first) ==
    IF rs = <<>> THEN w
    ELSE LET v == Head(rs) IN
         LET w2 == IF w.cur = "cond"
                   THEN [w EXCEPT !.conds[Len(w.conds)].rs = Append(@, v)]
                   ELSE IF w.def = None THEN [w EXCEPT !.def = NewMatcher(AnyA, <<v>>)]
                   ELSE [w EXCEPT !.def.rs = Append(@, v)] IN
         AddResults(w2, Tail(rs), FALSE)

\* baseMocker.callback / When.invoke / BaseMatcher.Result for a call with argument a;
\* returns [res, when']
MatcherResult(m) == IF m.n >= Len(m.rs) THEN [v |-> m.rs[Len(m.rs)], m |-> m]
                    ELSE [v |-> m.rs[m.n + 1], m |-> [m EXCEPT !.n = @ + 1]]
FirstIdx(conds, a) == LET I == {i \in 1..Len(conds) : conds[i].a = a \/ conds[i].a = AnyA} IN
                      IF I = {} THEN 0 ELSE CHOOSE i \in I : \A j \in I : i <= j
Invoke(w, a) ==
    LET i == FirstIdx(w.conds, a) IN
    IF i # 0 THEN LET r == MatcherResult(w.conds[i]) IN
                  [res |-> "r:" \o ToString(r.v), w |-> [w EXCEPT !.conds[i] = r.m]]
    ELSE IF w.def # None THEN LET r == MatcherResult(w.def) IN
                  [res |-> "r:" \o ToString(r.v), w |-> [w EXCEPT !.def = r.m]]
    ELSE [res |-> "panic:nocond", w |-> w]

(* ---------------- requirement ---------------- *)
\* "the k-th call receives the k-th configured result, every call after the n-th the last one".  A sequence may be
\* EXTENDED later (a further Returns / Return on the same configuration, cf. the repository's TestMultiReturns).  If
\* calls beyond the old end came before the extension, the statement can be read in two ways: k counts every call that
\* selected the stub (n), or only those that consumed a fresh element (c).  Both readings are accepted (v, v2); they
\* coincide unless an extension follows calls beyond the end, and they converge on the new last element.
ReqSeq(m) == [v |-> m.rs[Min(m.n + 1, Len(m.rs))], v2 |-> m.rs[Min(m.c + 1, Len(m.rs))],
              m |-> [m EXCEPT !.n = @ + 1, !.c = Min(@ + 1, Len(m.rs))]]
Alt(r) == IF r.v2 = r.v THEN "" ELSE "r:" \o ToString(r.v2)
ReqInvoke(e, a) ==
    LET i == FirstIdx(e.conds, a) IN
    IF i # 0 THEN LET r == ReqSeq(e.conds[i]) IN [res |-> "r:" \o ToString(r.v), alt |-> Alt(r), e |-> [e EXCEPT !.conds[i] = r.m]]
    ELSE IF e.def # None THEN LET r == ReqSeq(e.def) IN [res |-> "r:" \o ToString(r.v), alt |-> Alt(r), e |-> [e EXCEPT !.def = r.m]]
    ELSE [res |-> "panic:nocond", alt |-> "", e |-> e]

Tainted(tc, t) == Cardinality({b \in B : tc[b][t]}) > 1
\* requirement-level effect of an instruction by b on t that would make t behave as e
Instruct(b, t, e) ==
    /\ cfg' = [cfg EXCEPT ![b][t] = TRUE]
    /\ touched' = [touched EXCEPT ![b][t] = TRUE]
    /\ exp' = [exp EXCEPT ![t] = IF Tainted(touched', t) THEN Free ELSE e]

ObsEntry(e) == IF e.k = "orig" THEN "P" ELSE IF e.k = "free" THEN "free" ELSE "J"
Obs(ex, pr) == [x \in T \cup {"ph:" \o t : t \in T} |->
                   IF x \in T THEN ObsEntry(ex[x])
                   ELSE pr[CHOOSE t \in T : x = "ph:" \o t]]
Log(rec) == hist' = Append(hist, rec)

-----------------------------------------------------------------------------
(* ---------------- actions ---------------- *)

\* handle.Apply(cb): drops the handle's When object (since fix ccd7848), re-patches
Apply(b, t, c, via) ==
    /\ "Apply" \in Ops /\ CanUse(b, t, via)
    /\ LET m == Handle(b, t, via) IN LET pr == PatchRec(t, [k |-> "cb", c |-> c, w |-> Wrapped]) IN
       /\ entry' = pr.entry /\ patches' = pr.patches
       /\ mk' = [mk EXCEPT ![b][t] = [m EXCEPT !.imp = [k |-> "cb", c |-> c], !.guard = pr.guard, !.when = None, !.canceled = FALSE]]
    /\ Instruct(b, t, [k |-> "cb", c |-> c])
    /\ UNCHANGED <<ph, phr, lg>>
    /\ Log([op |-> "Apply", b |-> b, t |-> t, c |-> c, via |-> via, obs |-> Obs(exp', phr'), panic |-> ""])

\* handle.Origin(&placeholder).Apply(callback that calls the placeholder)
ApplyO(b, t, via) ==
    /\ "ApplyO" \in Ops /\ CanUse(b, t, via)
    /\ LET m == Handle(b, t, via) IN LET pr == PatchRec(t, [k |-> "cbo", w |-> Wrapped]) IN
       /\ entry' = pr.entry /\ patches' = pr.patches
       /\ ph' = [ph EXCEPT ![t] = "T"]
       /\ mk' = [mk EXCEPT ![b][t] = [m EXCEPT !.imp = [k |-> "cbo"], !.guard = pr.guard, !.when = None, !.origin = TRUE, !.canceled = FALSE]]
    /\ Instruct(b, t, [k |-> "cbo"])
    /\ phr' = [phr EXCEPT ![t] = "T"]
    /\ UNCHANGED lg
    /\ Log([op |-> "ApplyO", b |-> b, t |-> t, via |-> via, obs |-> Obs(exp', phr'), panic |-> ""])

\* stub instructions; kind in {"Return","Returns","When"}:
\*   Return : handle.Return(rs[1]).AndReturn(rs[2])...
\*   Returns: handle.Returns(rs[1], ..., rs[n])
\*   When   : handle.When(a).Return(rs[1]).AndReturn(rs[2])...
Stub(kind, b, t, a, rs, via) ==
    /\ kind \in Ops /\ CanUse(b, t, via)
    /\ LET m == Handle(b, t, via) IN
       IF m.when = None
       THEN \* CreateWhen ; whens ; doApply(MakeFunc(m.callback))
            LET w == IF kind = "When" THEN [def |-> None, conds |-> <<NewMatcher(a, rs)>>, cur |-> "cond"]
                     ELSE IF kind = "Return" THEN [def |-> NewMatcher(AnyA, rs), conds |-> <<>>, cur |-> "def"]
                     ELSE [def |-> NewMatcher(AnyA, rs), conds |-> <<>>, cur |-> "nil"] IN
            LET pr == PatchRec(t, MfFv(b, t)) IN
            /\ entry' = pr.entry /\ patches' = pr.patches
            /\ ph' = [ph EXCEPT ![t] = IF m.origin THEN "T" ELSE @]
            /\ mk' = [mk EXCEPT ![b][t] = [m EXCEPT !.imp = [k |-> "mf"], !.guard = pr.guard, !.when = w, !.canceled = FALSE]]
       ELSE \* the existing When object is extended; nothing is re-applied
            LET w0 == m.when IN
            LET w == IF kind = "When" THEN [w0 EXCEPT !.conds = Append(@, NewMatcher(a, rs)), !.cur = "cond"]
                     ELSE AddResults(w0, rs, TRUE) IN
            /\ mk' = [mk EXCEPT ![b][t] = [m EXCEPT !.when = w]]
            /\ UNCHANGED <<entry, patches, ph>>
    /\ LET e == exp[t] IN
       LET e2 == IF kind = "When"
                 THEN (IF e.k = "stub" THEN [e EXCEPT !.conds = Append(@, NewMatcher(a, rs))]
                       ELSE IF e.k = "free" THEN Free
                       ELSE [k |-> "stub", def |-> None, conds |-> <<NewMatcher(a, rs)>>])
                 ELSE (IF e.k = "stub" /\ e.conds = <<>> /\ e.def # None
                       THEN [e EXCEPT !.def.rs = @ \o rs]        \* a default-only stub is extended (TestMultiReturns)
                       ELSE IF e.k \in {"stub", "free"} THEN Free \* bare Return on a configuration with conditions: unspecified
                       ELSE [k |-> "stub", def |-> NewMatcher(AnyA, rs), conds |-> <<>>]) IN
       Instruct(b, t, e2)
    /\ UNCHANGED <<phr, lg>>
    /\ Log([op |-> kind, b |-> b, t |-> t, a |-> a, rs |-> rs, via |-> via, obs |-> Obs(exp', phr'), panic |-> ""])

\* handle.When(a).Return(<a value of another size>): TWO calls.  When(a) is well-formed: on a handle without a When object it
\* creates one (no default, no registered condition yet) and installs it - the target is mocked from then on; on a handle
\* that has one it only selects the condition being built.  The Return that follows is rejected (panic) BEFORE the condition
\* is registered: nothing else changes, and a later When(a).Return(good) must behave as if the rejected call had not been made.
WhenBad(b, t, a, via) ==
    /\ "WhenBad" \in Ops /\ CanUse(b, t, via)
    /\ LET m == Handle(b, t, via) IN
       IF m.when = None
       THEN LET w == [def |-> None, conds |-> <<>>, cur |-> "cond"] IN
            LET pr == PatchRec(t, MfFv(b, t)) IN
            /\ entry' = pr.entry /\ patches' = pr.patches
            /\ ph' = [ph EXCEPT ![t] = IF m.origin THEN "T" ELSE @]
            /\ mk' = [mk EXCEPT ![b][t] = [m EXCEPT !.imp = [k |-> "mf"], !.guard = pr.guard, !.when = w, !.canceled = FALSE]]
       ELSE /\ mk' = [mk EXCEPT ![b][t] = [m EXCEPT !.when.cur = "cond"]]
            /\ UNCHANGED <<entry, patches, ph>>
    /\ LET e == exp[t] IN
       Instruct(b, t, IF e.k \in {"stub", "free"} THEN e ELSE [k |-> "stub", def |-> None, conds |-> <<>>])
    /\ UNCHANGED <<phr, lg>>
    /\ Log([op |-> "WhenBad", b |-> b, t |-> t, a |-> a, via |-> via, obs |-> Obs(exp', phr'), panic |-> "rejected"])

\* handle.Cancel() (the lookup may create a fresh, never applied mocker)
CancelMk(m) == [m EXCEPT !.when = None, !.origin = FALSE, !.canceled = TRUE]
Cancel(b, t, via) ==
    /\ "Cancel" \in Ops /\ CanUse(b, t, via)
    /\ LET m == Handle(b, t, via) IN
       /\ entry' = [entry EXCEPT ![t] = IF m.guard # None THEN m.guard.ob ELSE @]
       /\ mk' = [mk EXCEPT ![b][t] = CancelMk(m)]
    /\ exp' = [exp EXCEPT ![t] = IF cfg[b][t] THEN Orig ELSE @]
    /\ cfg' = [cfg EXCEPT ![b][t] = FALSE]
    /\ UNCHANGED <<patches, ph, phr, touched, lg>>
    /\ Log([op |-> "Cancel", b |-> b, t |-> t, via |-> via, obs |-> Obs(exp', phr'), panic |-> ""])

\* Builder.Reset(): Cancel on every cached mocker (order irrelevant: the writes commute)
Reset(b) ==
    /\ "Reset" \in Ops
    /\ entry' = [t \in T |-> IF mk[b][t].ex /\ mk[b][t].guard # None THEN mk[b][t].guard.ob ELSE entry[t]]
    /\ mk' = [mk EXCEPT ![b] = [t \in T |-> IF mk[b][t].ex THEN CancelMk(mk[b][t]) ELSE mk[b][t]]]
    /\ exp' = [t \in T |-> IF cfg[b][t] THEN Orig ELSE exp[t]]
    /\ cfg' = [cfg EXCEPT ![b] = [t \in T |-> FALSE]]
    /\ UNCHANGED <<patches, ph, phr, touched, lg>>
    /\ Log([op |-> "Reset", b |-> b, obs |-> Obs(exp', phr'), panic |-> ""])

\* a call t(a) from another package
ImplCall(t, a) ==
    IF entry[t] = P THEN [res |-> "orig", mk |-> mk]
    ELSE IF entry[t].k = "cb" THEN [res |-> "cb:" \o entry[t].c, mk |-> mk]
    ELSE IF entry[t].k = "cbo" THEN [res |-> "cbo", mk |-> mk]
    ELSE LET m == mk[entry[t].b][entry[t].t] IN
         IF m.when = None THEN [res |-> "panic:nocond", mk |-> mk]
         ELSE LET r == Invoke(m.when, a) IN
              [res |-> r.res, mk |-> [mk EXCEPT ![entry[t].b][entry[t].t].when = r.w]]
ReqCall(t, a) ==
    LET e == exp[t] IN
    IF e.k = "orig" THEN [res |-> "orig", alt |-> "", exp |-> exp]
    ELSE IF e.k = "cb" THEN [res |-> "cb:" \o e.c, alt |-> "", exp |-> exp]
    ELSE IF e.k = "cbo" THEN [res |-> "cbo", alt |-> "", exp |-> exp]
    ELSE IF e.k = "free" THEN [res |-> "free", alt |-> "", exp |-> exp]
    ELSE LET r == ReqInvoke(e, a) IN [res |-> r.res, alt |-> r.alt, exp |-> [exp EXCEPT ![t] = r.e]]

Call(t, a) ==
    /\ "Call" \in Ops
    /\ LET i == ImplCall(t, a) IN LET r == ReqCall(t, a) IN
       /\ mk' = i.mk
       /\ exp' = r.exp
       /\ Log([op |-> "Call", t |-> t, a |-> a, res |-> r.res, alt |-> r.alt, ires |-> i.res, obs |-> Obs(exp', phr), panic |-> ""])
    /\ UNCHANGED <<entry, ph, patches, cfg, touched, phr, lg>>

\* calling t's origin placeholder directly: the original, once goom has rewritten it
CallPh(t, a) ==
    /\ "CallPh" \in Ops
    /\ phr[t] = "T"
    /\ Log([op |-> "CallPh", t |-> t, a |-> a, res |-> "orig", alt |-> "",
            ires |-> IF ph[t] = "T" THEN "orig" ELSE "ph", obs |-> Obs(exp, phr), panic |-> ""])
    /\ UNCHANGED <<entry, ph, patches, mk, exp, cfg, touched, phr, lg>>

\* C13: an ill-formed instruction through b's handle for t.  Kinds: callback with another parameter count
\* ("arity") or parameter size ("size"), too few return values
\* ("ret-few"), a return value of another size ("ret-size").  Every one of them is detected before anything is
\* written: the call panics and NOTHING changes - neither mechanism nor requirement state (a lookup that creates
\* a fresh, never applied mocker is not observable).
MistakeKinds == {"arity", "size", "ret-few", "ret-size"}
Mistake(b, t, kind) ==
    /\ "Mistake" \in Ops
    /\ UNCHANGED <<entry, ph, patches, mk, exp, cfg, touched, phr, lg>>
    /\ Log([op |-> "Mistake", b |-> b, t |-> t, kind |-> kind, obs |-> Obs(exp, phr), panic |-> "rejected"])

\* logging switches (builder.go OpenDebug/CloseDebug/OpenTrace/CloseTrace -> logger): they change lg only
LogOp(name) ==
    /\ name \in Ops
    /\ lg' = CASE name = "OpenDebug"  -> [lg EXCEPT !.console = "debug"]
              [] name = "CloseDebug" -> [lg EXCEPT !.console = "warn"]
              [] name = "OpenTrace"  -> [console |-> "debug", level |-> "trace"]
              [] name = "CloseTrace" -> [console |-> "warn", level |-> "info"]
    /\ UNCHANGED <<entry, ph, patches, mk, exp, cfg, touched, phr>>
    /\ Log([op |-> name, obs |-> Obs(exp, phr), panic |-> ""])

\* the last step of a generated behaviour: a single successor, so that in -simulate mode exactly
\* the behaviour TLC walked is printed (constraints/invariants are evaluated on every candidate successor)
Finish == Len(hist) = MaxOps /\ hist' = Append(hist, [op |-> "End"]) /\ UNCHANGED <<entry, ph, patches, mk, exp, cfg, touched, phr, lg>>

Next == \/ Finish
        \/ /\ Len(hist) < MaxOps
           /\ \/ \E b \in B, t \in T, c \in CB, via \in Vias : Apply(b, t, c, via)
              \/ \E b \in B, t \in T, via \in Vias : ApplyO(b, t, via)
              \/ \E b \in B, t \in T, rs \in RS, via \in Vias : Stub("Return", b, t, AnyA, rs, via) \/ Stub("Returns", b, t, AnyA, rs, via)
              \/ \E b \in B, t \in T, a \in A \cup {AnyA}, rs \in RS, via \in Vias : Stub("When", b, t, a, rs, via)
              \/ \E b \in B, t \in T, via \in Vias : Cancel(b, t, via)
              \/ \E b \in B : Reset(b)
              \/ \E t \in T, a \in A : Call(t, a) \/ CallPh(t, a)
              \/ \E n \in {"OpenDebug", "CloseDebug", "OpenTrace", "CloseTrace"} : LogOp(n)
              \/ \E b \in B, t \in T, k \in MistakeKinds : Mistake(b, t, k)
              \/ \E b \in B, t \in T, a \in A, via \in Vias : WhenBad(b, t, a, via)

Spec == Init /\ [][Next]_vars

-----------------------------------------------------------------------------
(* ---------------- design-level properties (TLC) ---------------- *)
Last == hist[Len(hist)]

\* C01/C04/C05/C12: every call's mechanism result is the required one
CallsConform == (Len(hist) > 0 /\ Last.op \in {"Call", "CallPh"} /\ Last.res # "free") => (Last.ires = Last.res \/ (Last.alt # "" /\ Last.ires = Last.alt))

\* C02: the entry of t is diverted only while the requirement says t is mocked (or free), the
\* placeholder body only once handed over; captured origin bytes are always the pristine ones
ImageConforms == /\ \A t \in T : exp[t].k = "orig" => entry[t] = P
                 /\ \A t \in T : exp[t].k \in {"cb", "cbo", "stub"} => entry[t] # P
                 /\ \A t \in T : ph[t] = phr[t]
CapturedPristine == \A t \in T : patches[t] # None => patches[t].ob = P
GuardsPristine == \A b \in B, t \in T : mk[b][t].guard # None => mk[b][t].guard.ob = P

\* C02 (action form): Reset(b) leaves every target that b configured original
ResetRestores == [][(Len(hist') > Len(hist) /\ hist'[Len(hist')].op = "Reset")
                    => \A t \in T : cfg[hist'[Len(hist')].b][t] => entry'[t] = P]_vars
\* mocking one target never alters another
OthersUntouched == [][\A t \in T : (Len(hist') > Len(hist) /\ hist'[Len(hist')].op \in {"Apply", "ApplyO", "Return", "Returns", "When", "Cancel"}
                                    /\ hist'[Len(hist')].t # t) => (entry'[t] = entry[t] /\ ph'[t] = ph[t])]_vars
\* C05: cursors never exceed their sequence
CursorsInRange == \A b \in B, t \in T : mk[b][t].when # None =>
                     /\ (mk[b][t].when.def # None => mk[b][t].when.def.n <= Len(mk[b][t].when.def.rs))
                     /\ \A i \in 1..Len(mk[b][t].when.conds) : mk[b][t].when.conds[i].n <= Len(mk[b][t].when.conds[i].rs)

View == <<entry, ph, patches, mk, exp, cfg, touched, phr, lg, Len(hist)>>
Emit == Len(hist) = MaxOps + 1 => PrintT(ToJson(SubSeq(hist, 1, MaxOps)))
=============================================================================
