--------------------------------- MODULE Conc ---------------------------------
(* C11: independent builders and concurrent callers.  Processes:
     mockers   each owns a builder and its own target; they Apply / re-stub / Reset in a loop.  Every patch
               operation is a critical section under patchesLock (P-section): replaceFunc, Guard.Apply,
               Guard.UnpatchWithLock; inside it the text write is a critical section under memoryAccessLock
               (M-section): locked ; rwx ; copied ; rx ; unlocking  (cf. MemWrite.tla)
     callers   call a steadily mocked target and must always get the mocked result
   Targets may share a code page.  One action per lock acquisition / release and per step of the write. *)
EXTENDS Integers, Sequences, FiniteSets, TLC

CONSTANTS Procs,      \* mocker processes
          PageOf      \* [Procs -> page] page of each mocker's target

VARIABLES lockP, lockM, entry, perm, pcs, rounds
vars == <<lockP, lockM, entry, perm, pcs, rounds>>
Pages == {PageOf[p] : p \in Procs}

Init == /\ lockP = 0 /\ lockM = 0
        /\ entry = [p \in Procs |-> "P"]
        /\ perm = [g \in Pages |-> {"r", "x"}]
        /\ pcs = [p \in Procs |-> "idle"]
        /\ rounds = [p \in Procs |-> 0]

\* P-section enter/leave (kind: "replace" | "apply" | "unpatch")
PLock(p, kind) == /\ pcs[p] = "idle" /\ lockP = 0 /\ lockP' = p /\ pcs' = [pcs EXCEPT ![p] = "P:" \o kind]
                  /\ UNCHANGED <<lockM, entry, perm, rounds>>
PUnlock(p) == /\ lockP = p /\ pcs[p] \in {"P:replace", "P:apply", "P:unpatch"} /\ lockP' = 0
              /\ pcs' = [pcs EXCEPT ![p] = "idle"] /\ rounds' = [rounds EXCEPT ![p] = @ + 1]
              /\ UNCHANGED <<lockM, entry, perm>>
\* M-section inside a P-section
MLock(p) == /\ pcs[p] \in {"P:replace", "P:apply", "P:unpatch"} /\ lockM = 0 /\ lockM' = p
            /\ pcs' = [pcs EXCEPT ![p] = "M:locked:" \o pcs[p]] /\ UNCHANGED <<lockP, entry, perm, rounds>>
Kind(s) == IF s \in {"M:locked:P:replace", "M:rwx:P:replace", "M:copied:P:replace", "M:rx:P:replace"} THEN "P:replace"
           ELSE IF s \in {"M:locked:P:apply", "M:rwx:P:apply", "M:copied:P:apply", "M:rx:P:apply"} THEN "P:apply" ELSE "P:unpatch"
Phase(s, ph) == s = "M:" \o ph \o ":" \o Kind(s)
MRwx(p) == /\ lockM = p /\ Phase(pcs[p], "locked")
           /\ perm' = [perm EXCEPT ![PageOf[p]] = {"r", "w", "x"}]
           /\ pcs' = [pcs EXCEPT ![p] = "M:rwx:" \o Kind(pcs[p])] /\ UNCHANGED <<lockP, lockM, entry, rounds>>
MCopy(p) == /\ lockM = p /\ Phase(pcs[p], "rwx") /\ "w" \in perm[PageOf[p]]
            /\ entry' = [entry EXCEPT ![p] = IF Kind(pcs[p]) = "P:apply" THEN "J" ELSE "P"]
            /\ pcs' = [pcs EXCEPT ![p] = "M:copied:" \o Kind(pcs[p])] /\ UNCHANGED <<lockP, lockM, perm, rounds>>
MRx(p) == /\ lockM = p /\ Phase(pcs[p], "copied")
          /\ perm' = [perm EXCEPT ![PageOf[p]] = {"r", "x"}]
          /\ pcs' = [pcs EXCEPT ![p] = "M:rx:" \o Kind(pcs[p])] /\ UNCHANGED <<lockP, lockM, entry, rounds>>
MUnlock(p) == /\ lockM = p /\ Phase(pcs[p], "rx") /\ lockM' = 0
              /\ pcs' = [pcs EXCEPT ![p] = Kind(pcs[p])] /\ UNCHANGED <<lockP, entry, perm, rounds>>

Next == \E p \in Procs : (\E k \in {"replace", "apply", "unpatch"} : PLock(p, k)) \/ PUnlock(p) \/ MLock(p) \/ MRwx(p) \/ MCopy(p) \/ MRx(p) \/ MUnlock(p)
Spec == Init /\ [][Next]_vars

MutexP == Cardinality({p \in Procs : pcs[p] # "idle"}) <= 1
MutexM == Cardinality({p \in Procs : lockM = p}) <= 1
XAlways == \A g \in Pages : "x" \in perm[g]
WOnlyInM == \A g \in Pages : "w" \in perm[g] => lockM # 0
Quiescent == (\A p \in Procs : pcs[p] = "idle") => \A g \in Pages : perm[g] = {"r", "x"}
Bound == \A p \in Procs : rounds[p] <= 2
=============================================================================
