--------------------------------- MODULE Conc ---------------------------------
(* C11: independent builders and concurrent callers.  Processes:
     mockers   each owns a builder and its own target; they Apply / re-stub / Reset in a loop.  Every patch
               operation is a critical section under patchesLock (P-section): replaceFunc, Guard.Apply,
               Guard.UnpatchWithLock; inside it the text write is a critical section under memoryAccessLock
               (M-section): locked ; rwx ; copied ; rx ; unlocking  (cf. MemWrite.tla)
     callers   call a steadily mocked target and must always get the mocked result
   Targets may share a code page.  One action per lock acquisition / release and per step of the write. *)
EXTENDS Integers, Sequences, FiniteSets, TLC

CONSTANTS Procs,      \* mocker processes
          PageOf,     \* [Procs -> page] page of each mocker's target
          RDepth      \* nesting depth of the read side of memoryAccessLock in one scan (1 in goom: RawRead never nests)

(* memoryAccessLock is a sync.RWMutex.  Its read side is taken by every RawRead: by the instruction scans inside a
   P-section (GetFuncSize, the trampoline builder) and, for wrapper targets (generic functions, method values),
   by GetInnerFunc BEFORE the P-section.  A waiting writer blocks new readers (wpend), which is why the read side must
   never be nested: with RDepth = 2 the model deadlocks (self-test of C11). *)
VARIABLES lockP, lockM, entry, perm, pcs, rounds, wpend, rd, rprog
vars == <<lockP, lockM, entry, perm, pcs, rounds, wpend, rd, rprog>>
rwvars == <<wpend, rd, rprog>>
Pages == {PageOf[p] : p \in Procs}

Init == /\ lockP = 0 /\ lockM = 0
        /\ entry = [p \in Procs |-> "P"]
        /\ perm = [g \in Pages |-> {"r", "x"}]
        /\ pcs = [p \in Procs |-> "idle"]
        /\ rounds = [p \in Procs |-> 0]
        /\ wpend = 0 /\ rd = [p \in Procs |-> 0] /\ rprog = [p \in Procs |-> <<>>]

\* one scan of text: RDepth nested RLocks, then as many RUnlocks
ScanProg == [i \in 1..(2 * RDepth) |-> IF i <= RDepth THEN "L" ELSE "U"]
InP(p) == pcs[p] \in {"P:replace", "P:apply", "P:unpatch"}
RStart(p) == /\ (pcs[p] = "idle" \/ InP(p)) /\ wpend # p /\ rprog[p] = <<>> /\ rprog' = [rprog EXCEPT ![p] = ScanProg]
             /\ UNCHANGED <<lockP, lockM, entry, perm, pcs, rounds, wpend, rd>>
RStep(p) == /\ rprog[p] # <<>>
            /\ IF Head(rprog[p]) = "L" THEN lockM = 0 /\ wpend = 0 /\ rd' = [rd EXCEPT ![p] = @ + 1]
                                       ELSE rd' = [rd EXCEPT ![p] = @ - 1]
            /\ rprog' = [rprog EXCEPT ![p] = Tail(@)]
            /\ UNCHANGED <<lockP, lockM, entry, perm, pcs, rounds, wpend>>
Readers == {p \in Procs : rd[p] > 0}

\* P-section enter/leave (kind: "replace" | "apply" | "unpatch")
PLock(p, kind) == /\ pcs[p] = "idle" /\ rprog[p] = <<>> /\ lockP = 0 /\ lockP' = p /\ pcs' = [pcs EXCEPT ![p] = "P:" \o kind]
                  /\ UNCHANGED <<lockM, entry, perm, rounds, rwvars>>
PUnlock(p) == /\ lockP = p /\ rprog[p] = <<>> /\ wpend # p /\ pcs[p] \in {"P:replace", "P:apply", "P:unpatch"} /\ lockP' = 0
              /\ pcs' = [pcs EXCEPT ![p] = "idle"] /\ rounds' = [rounds EXCEPT ![p] = @ + 1]
              /\ UNCHANGED <<lockM, entry, perm, rwvars>>
\* M-section inside a P-section.  Lock() of the RWMutex is two steps: announce (new readers now block), then enter
\* once the readers have left; MLock is the two in one for histories without readers in flight (Trace_Conc).
MWant(p) == /\ InP(p) /\ rprog[p] = <<>> /\ lockM = 0 /\ wpend = 0 /\ wpend' = p
            /\ UNCHANGED <<lockP, lockM, entry, perm, pcs, rounds, rd, rprog>>
MEnter(p) == /\ wpend = p /\ InP(p) /\ Readers = {} /\ lockM' = p /\ wpend' = 0
             /\ pcs' = [pcs EXCEPT ![p] = "M:locked:" \o pcs[p]] /\ UNCHANGED <<lockP, entry, perm, rounds, rd, rprog>>
MLock(p) == /\ InP(p) /\ rprog[p] = <<>> /\ lockM = 0 /\ wpend = 0 /\ Readers = {} /\ lockM' = p
            /\ pcs' = [pcs EXCEPT ![p] = "M:locked:" \o pcs[p]] /\ UNCHANGED <<lockP, entry, perm, rounds, rwvars>>
Kind(s) == IF s \in {"M:locked:P:replace", "M:rwx:P:replace", "M:copied:P:replace", "M:rx:P:replace"} THEN "P:replace"
           ELSE IF s \in {"M:locked:P:apply", "M:rwx:P:apply", "M:copied:P:apply", "M:rx:P:apply"} THEN "P:apply" ELSE "P:unpatch"
Phase(s, ph) == s = "M:" \o ph \o ":" \o Kind(s)
MRwx(p) == /\ lockM = p /\ Phase(pcs[p], "locked")
           /\ perm' = [perm EXCEPT ![PageOf[p]] = {"r", "w", "x"}]
           /\ pcs' = [pcs EXCEPT ![p] = "M:rwx:" \o Kind(pcs[p])] /\ UNCHANGED <<lockP, lockM, entry, rounds, rwvars>>
MCopy(p) == /\ lockM = p /\ Phase(pcs[p], "rwx") /\ "w" \in perm[PageOf[p]]
            /\ entry' = [entry EXCEPT ![p] = IF Kind(pcs[p]) = "P:apply" THEN "J" ELSE "P"]
            /\ pcs' = [pcs EXCEPT ![p] = "M:copied:" \o Kind(pcs[p])] /\ UNCHANGED <<lockP, lockM, perm, rounds, rwvars>>
MRx(p) == /\ lockM = p /\ Phase(pcs[p], "copied")
          /\ perm' = [perm EXCEPT ![PageOf[p]] = {"r", "x"}]
          /\ pcs' = [pcs EXCEPT ![p] = "M:rx:" \o Kind(pcs[p])] /\ UNCHANGED <<lockP, lockM, entry, rounds, rwvars>>
MUnlock(p) == /\ lockM = p /\ Phase(pcs[p], "rx") /\ lockM' = 0
              /\ pcs' = [pcs EXCEPT ![p] = Kind(pcs[p])] /\ UNCHANGED <<lockP, entry, perm, rounds, rwvars>>

Next == \E p \in Procs : \/ (\E k \in {"replace", "apply", "unpatch"} : PLock(p, k)) \/ PUnlock(p)
                         \/ MWant(p) \/ MEnter(p) \/ MRwx(p) \/ MCopy(p) \/ MRx(p) \/ MUnlock(p)
                         \/ RStart(p) \/ RStep(p)
Spec == Init /\ [][Next]_vars

MutexP == Cardinality({p \in Procs : pcs[p] # "idle"}) <= 1
MutexM == Cardinality({p \in Procs : lockM = p}) <= 1
XAlways == \A g \in Pages : "x" \in perm[g]
WOnlyInM == \A g \in Pages : "w" \in perm[g] => lockM # 0
NoReadWhileWrite == lockM # 0 => Readers = {}
Quiescent == (\A p \in Procs : pcs[p] = "idle") => \A g \in Pages : perm[g] = {"r", "x"}
Bound == \A p \in Procs : rounds[p] <= 2
=============================================================================
