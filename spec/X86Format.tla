---- MODULE X86Format ----
\* Instruction *format* of x86-64 (64-bit mode): length and PC-relative field.
EXTENDS Integers, Sequences
Legacy == {102,103,242,243,240,46,54,62,38,100,101}   \* 66 67 F2 F3 F0 2E 36 3E 26 64 65
RECURSIVE SkipPfx(_,_,_)
SkipPfx(b,i,n) == IF i <= n /\ b[i] \in Legacy THEN SkipPfx(b,i+1,n) ELSE i
Has(b,p,x) == \E k \in 1..(p-1) : b[k] = x

\* ---- one-byte map ----
AluBase == {0,8,16,24,32,40,48,56}
Alu_M   == UNION {{x,x+1,x+2,x+3} : x \in AluBase}
Alu_ib  == {x+4 : x \in AluBase}
Alu_iz  == {x+5 : x \in AluBase}
Inv1    == UNION {{x+6,x+7} : x \in {0,8,16,24}} \cup {39,47,55,63} \cup {96,97,98,130,154,206,212,213,214,234}
M1      == Alu_M \cup {99,105,107} \cup {128,129,131} \cup (132..143) \cup {192,193,198,199} \cup (208..211) \cup (216..223) \cup {246,247,254,255}
Ib1     == Alu_ib \cup {106,107,128,131,168,192,193,198,205} \cup (176..183) \cup (228..231)
Iz1     == Alu_iz \cup {104,105,129,169,199}
Rel8_1  == (112..127) \cup (224..227) \cup {235}
Rel32_1 == {232,233}
Iw1     == {194,202}
\* ---- two-byte map (0F xx) ----
NoM2    == {5,6,7,8,9,11,14} \cup (48..55) \cup {119} \cup (128..143) \cup {160,161,162,168,169,170} \cup (200..207)
Inv2    == {4,10,12,36,37,38,39,54,57,59,60,61,62,63,122,123,166,167}   \* conservative: treated as outside the model
Ib2     == {112,113,114,115,164,172,186,194,196,197,198}

ModRM(b,i,n) ==   \* [ok, len (modrm+sib+disp), rip (BOOLEAN), dispoff (index of disp)]
  IF i > n THEN [ok |-> FALSE, len |-> 0, rip |-> FALSE, doff |-> 0]
  ELSE LET m == b[i] IN LET mod == m \div 64 IN LET rm == m % 8 IN
       LET sib == (mod # 3 /\ rm = 4) IN
       IF sib /\ i+1 > n THEN [ok |-> FALSE, len |-> 0, rip |-> FALSE, doff |-> 0]
       ELSE LET base == IF sib THEN b[i+1] % 8 ELSE 0 IN
            LET disp == IF mod = 1 THEN 1 ELSE IF mod = 2 THEN 4
                        ELSE IF mod = 0 /\ ((~sib /\ rm = 5) \/ (sib /\ base = 5)) THEN 4 ELSE 0 IN
            [ok |-> TRUE, len |-> 1 + (IF sib THEN 1 ELSE 0) + disp,
             rip |-> (mod = 0 /\ rm = 5), doff |-> i + 1 + (IF sib THEN 1 ELSE 0)]

Bad == [ok |-> FALSE, len |-> 0, rel |-> 0, off |-> 0, cls |-> "none"]
Mk(len, rel, off, cls, n) == IF len > n \/ len > 15 THEN Bad ELSE [ok |-> TRUE, len |-> len, rel |-> rel, off |-> off, cls |-> cls]

\* opcodes whose ModRM.reg field selects the operation (group opcodes): the signature includes /reg
Group1 == {128,129,131,143,192,193,198,199,208,209,210,211,246,247,254,255}
Group2 == {0,1,24,113,114,115,174,186,199}
WithM(b, mi, imm, cls, n) ==   \* mi = index of modrm byte; imm = immediate bytes after modrm stuff
  LET m == ModRM(b, mi, n) IN
  IF ~m.ok THEN Bad
  ELSE Mk(mi - 1 + m.len + imm, IF m.rip THEN 4 ELSE 0, IF m.rip THEN m.doff - 1 ELSE 0,
          IF m.rip /\ cls = "lea" THEN "lea-rip" ELSE cls, n)

\* Decode(b, n): b = byte sequence (1-based), n = bytes supplied. off is 0-based like the Go decoder.
Decode(b, n) ==
  LET p == SkipPfx(b,1,n) IN
  IF p > n THEN Bad ELSE
  LET has66 == Has(b,p,102) IN LET has67 == Has(b,p,103) IN
  LET isrex == b[p] >= 64 /\ b[p] <= 79 IN
  LET r == IF isrex THEN p+1 ELSE p IN
  IF r > n THEN Bad ELSE
  LET rexw == isrex /\ ((b[p] \div 8) % 2 = 1) IN
  LET osz == IF rexw THEN 4 ELSE IF has66 THEN 2 ELSE 4 IN   \* iz size
  LET op == b[r] IN
  IF has67 THEN [Bad EXCEPT !.cls = "outside"]      \* address-size override: 32-bit addressing forms are not modelled
  ELSE IF op \in {196,197,98} THEN [Bad EXCEPT !.cls = "vex"]     \* VEX/EVEX: outside this prototype
  ELSE IF op = 15 THEN
     IF r+1 > n THEN Bad ELSE
     LET o2 == b[r+1] IN
     IF o2 \in {56,58} THEN  \* three-byte maps
        IF r+2 > n THEN Bad ELSE WithM(b, r+3, IF o2 = 58 THEN 1 ELSE 0, "other", n)
     ELSE IF o2 \in Inv2 THEN [Bad EXCEPT !.cls = "outside"]
     ELSE IF o2 >= 128 /\ o2 <= 143 THEN (IF has66 THEN [Bad EXCEPT !.cls = "outside"] ELSE Mk(r+1+4, 4, r+1, "jcc", n))
     ELSE IF o2 \in NoM2 THEN Mk(r+1, 0, 0, "other", n)
     ELSE IF o2 = 15 THEN WithM(b, r+2, 1, "other", n)
     ELSE WithM(b, r+2, IF o2 \in Ib2 THEN 1 ELSE 0, "other", n)
  ELSE IF op \in Inv1 THEN [Bad EXCEPT !.cls = "outside"]
  ELSE IF op \in Rel8_1 THEN Mk(r+1, 1, r, IF op = 235 THEN "jmp" ELSE IF op \in (112..127) THEN "jcc" ELSE "other", n)
  ELSE IF op \in Rel32_1 THEN (IF has66 THEN [Bad EXCEPT !.cls = "outside"] ELSE Mk(r+4, 4, r, IF op = 232 THEN "call" ELSE "jmp", n))
  ELSE IF op \in (184..191) THEN Mk(r + (IF rexw THEN 8 ELSE IF has66 THEN 2 ELSE 4), 0, 0, "other", n)
  ELSE IF op \in (160..163) THEN Mk(r + (IF has67 THEN 4 ELSE 8), 0, 0, "other", n)
  ELSE IF op = 200 THEN Mk(r+3, 0, 0, "other", n)
  ELSE IF op \in Iw1 THEN Mk(r+2, 0, 0, "ret", n)
  ELSE IF op \in M1 THEN
       LET reg == IF r+1 <= n THEN (b[r+1] \div 8) % 8 ELSE 0 IN
       LET imm == IF op = 246 THEN (IF reg \in {0,1} THEN 1 ELSE 0)
                  ELSE IF op = 247 THEN (IF reg \in {0,1} THEN osz ELSE 0)
                  ELSE IF op \in Ib1 THEN 1 ELSE IF op \in Iz1 THEN osz ELSE 0 IN
       IF op = 141 /\ r+1 <= n /\ b[r+1] \div 64 = 3 THEN [Bad EXCEPT !.cls = "outside"] ELSE   \* LEA needs a memory operand
       WithM(b, r+1, imm, IF op = 141 THEN "lea" ELSE IF op = 255 /\ reg \in {2,3} THEN "call" ELSE IF op = 255 /\ reg \in {4,5} THEN "jmp" ELSE "other", n)
  ELSE IF op \in Ib1 THEN Mk(r+1, 0, 0, "other", n)
  ELSE IF op \in Iz1 THEN Mk(r+osz, 0, 0, "other", n)
  ELSE Mk(r, 0, 0, IF op \in {195,203} THEN "ret" ELSE IF op = 204 THEN "int3" ELSE IF op = 144 THEN "nop" ELSE "other", n)

\* Operand shapes are generalised only where every ModRM form is architecturally valid without a mandatory
\* prefix: the one-byte map and the integer part of the 0F map (jcc, setcc, cmovcc, bt*, imul, movzx/movsx,
\* cmpxchg, xadd, shld/shrd, syscall/ud2/cpuid). SSE/AES opcodes need 66/F2/F3 and register-only or
\* memory-only forms; for them only the encodings found in real binaries are claimed.
Safe2 == (64..79) \cup (128..159) \cup {5, 11, 162, 163, 164, 165, 171, 172, 173, 175, 176, 177, 179, 182, 183, 187, 190, 191, 192, 193}
\* x87 (D8..DF) and segment-register moves (8C/8E) have /reg- and mod-dependent validity: text forms only
NoGen1 == (216..223) \cup {140, 142}
Generalises(s) == (s \div 100000 = 1 /\ ((s % 100000) \div 10) \notin NoGen1) \/ (s \div 100000 = 2 /\ ((s % 100000) \div 10) \in Safe2)

\* Signature of an encoding: (opcode map, opcode, /reg for group opcodes) as one integer;
\* 0 when the bytes run out before the opcode. Used to delimit the model's claimed domain.
Sig(b, n) ==
  LET p == SkipPfx(b,1,n) IN
  IF p > n THEN 0 ELSE
  LET isrex == b[p] >= 64 /\ b[p] <= 79 IN
  LET r == IF isrex THEN p+1 ELSE p IN
  IF r > n THEN 0 ELSE
  LET op == b[r] IN
  IF op = 15 THEN
     IF r+1 > n THEN 0 ELSE
     LET o2 == b[r+1] IN
     IF o2 \in {56,58} THEN (IF r+2 > n THEN 0 ELSE (IF o2 = 56 THEN 300000 ELSE 400000) + 10 * b[r+2])
     ELSE 200000 + 10 * o2 + (IF o2 \in Group2 /\ r+2 <= n THEN 1 + ((b[r+2] \div 8) % 8) ELSE 0)
  ELSE 100000 + 10 * op + (IF op \in Group1 /\ r+1 <= n THEN 1 + ((b[r+1] \div 8) % 8) ELSE 0)
====
