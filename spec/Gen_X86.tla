------------------------------- MODULE Gen_X86 -------------------------------
(* Spec -> code for C16: TLC enumerates the operand-shape grammar of the format model over the claimed
   domain Core (REX x ModRM x SIB x displacement, 66 prefix on the one-byte map) and prints one concrete
   encoding per combination; the real decoder is run on each and judged by Trace_X86. *)
EXTENDS X86Format, X86Core, Json, TLC, Sequences, Integers
CONSTANTS Rex, ModRMs, Sibs, Pfx
VARIABLE done
Fill == <<17, 34, 51, 68, 85, 102, 119, 136, 153, 170, 187, 204>>
\* bytes of signature s with prefix p (0 = none), rex x (0 = none), modrm m, sib sb
Enc(s, p, x, m, sb) ==
  LET map == s \div 100000 IN LET op == (s % 100000) \div 10 IN LET g == s % 10 IN
  LET mm == IF g = 0 THEN m ELSE (m \div 64) * 64 + (g - 1) * 8 + (m % 8) IN
  (IF p = 0 THEN <<>> ELSE <<p>>) \o (IF x = 0 THEN <<>> ELSE <<x>>)
  \o (IF map = 1 THEN <<op>> ELSE IF map = 2 THEN <<15, op>> ELSE IF map = 3 THEN <<15, 56, op>> ELSE <<15, 58, op>>)
  \o <<mm, sb>> \o Fill
All == {Enc(s, p, x, m, sb) : s \in {c \in Core : Generalises(c)}, p \in (IF TRUE THEN Pfx ELSE {0}), x \in Rex, m \in ModRMs, sb \in Sibs}
\* design-level sanity of the model itself on everything it generates
ModelSane == \A e \in All : LET d == Decode(e, 15) IN d.ok => (d.len \in 1..15 /\ (d.rel = 0 \/ (d.off >= 1 /\ d.off + d.rel <= d.len)))
Init == done = FALSE
Next == ~done /\ done' = TRUE /\ \A e \in All : PrintT(ToJson(SubSeq(e, 1, 15)))
Spec == Init /\ [][Next]_done
=============================================================================
