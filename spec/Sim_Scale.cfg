SPECIFICATION Spec
CONSTANTS
  N = 64
  GroupNames <- GN
  Groups <- G64
  Obj <- ObjF
  HasCancel = TRUE
  CondSizes = {1, 4, 8, 9, 16, 17, 33, 120}
  SeqSizes = {1, 2, 8, 9, 17, 64}
  MaxOps = 12
INVARIANT Emit
CHECK_DEADLOCK FALSE
