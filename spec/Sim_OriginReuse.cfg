SPECIFICATION Spec
CONSTANTS
  T = {"f", "g", "h"}
  PH = {"p1", "p2"}
  MaxOps = 12
INVARIANT Emit
CHECK_DEADLOCK FALSE
