SPECIFICATION Spec
CONSTANTS
  X = {"x1", "x2"}
  V = {"a", "b", "z"}
  X0 <- X0_2
  B = {"b1"}
  Owner <- Owner_2
  Vias = {"lookup"}
  MaxOps = 4
CONSTRAINT Emit
CHECK_DEADLOCK FALSE
