------------------------------- MODULE A64Format -------------------------------
(* C17: the parts of the A64 instruction format goom's arm64 code relies on, as operators on the four bytes
   of a little-endian instruction word b = <<b0, b1, b2, b3>> (TLC integers are 32 bit):
     B / BL (imm26)   B.cond (imm19, o0 = 0)   CBZ / CBNZ (imm19)   TBZ / TBNZ (imm14)
     ADR / ADRP (immlo:immhi)   LDR / LDRSW / PRFM (literal, imm19)   BR / BLR / RET
     and the architecturally unallocated top-level groups op0 in {0001, 0011}.
   Class(b) = [cls, op (mnemonic, "" = must not decode), has (a PC-relative operand exists), disp (its value;
   ADRP in 4096-byte pages)] or cls = "other" (outside this model). *)
EXTENDS Integers, Sequences, TLC

Low24(b) == b[3] * 65536 + b[2] * 256 + b[1]
Sext(v, w) == IF v >= 2 ^ (w - 1) THEN v - 2 ^ w ELSE v
Imm26(b) == (b[4] % 4) * 16777216 + Low24(b)
Imm19(b) == (Low24(b) \div 32) % 524288
Imm14(b) == (((b[3] % 8) * 65536 + b[2] * 256 + b[1]) \div 32) % 16384
Imm21(b) == Imm19(b) * 4 + ((b[4] \div 32) % 4)
Op0(b) == (b[4] \div 2) % 16                     \* bits 28..25

Class(b) ==
  IF (b[4] \div 4) % 32 = 5 THEN
       [cls |-> "b", op |-> IF b[4] >= 128 THEN "BL" ELSE "B", has |-> TRUE, disp |-> 4 * Sext(Imm26(b), 26)]
  ELSE IF b[4] = 84 THEN
       (IF (b[1] \div 16) % 2 = 0 THEN [cls |-> "bcond", op |-> "B", has |-> TRUE, disp |-> 4 * Sext(Imm19(b), 19)]
        ELSE [cls |-> "bccond", op |-> "", has |-> FALSE, disp |-> 0])          \* o0 = 1: not an ARMv8.0 instruction
  ELSE IF (b[4] % 128) \div 2 = 26 THEN        \* x011010x
       [cls |-> "cb", op |-> IF b[4] % 2 = 0 THEN "CBZ" ELSE "CBNZ", has |-> TRUE, disp |-> 4 * Sext(Imm19(b), 19)]
  ELSE IF (b[4] % 128) \div 2 = 27 THEN        \* x011011x
       [cls |-> "tb", op |-> IF b[4] % 2 = 0 THEN "TBZ" ELSE "TBNZ", has |-> TRUE, disp |-> 4 * Sext(Imm14(b), 14)]
  ELSE IF b[4] % 32 = 16 THEN                   \* xxx10000
       [cls |-> "adr", op |-> IF b[4] >= 128 THEN "ADRP" ELSE "ADR", has |-> TRUE, disp |-> Sext(Imm21(b), 21)]
  ELSE IF (b[4] % 64) - ((b[4] \div 4) % 2) * 4 = 24 THEN   \* xx011v00: load literal
       LET opc == b[4] \div 64 IN LET v == (b[4] \div 4) % 2 IN
       [cls |-> "ldrlit",
        op |-> IF opc = 3 /\ v = 1 THEN "" ELSE IF opc = 3 THEN "PRFM" ELSE IF opc = 2 /\ v = 0 THEN "LDRSW" ELSE "LDR",
        has |-> ~(opc = 3 /\ v = 1), disp |-> IF opc = 3 /\ v = 1 THEN 0 ELSE 4 * Sext(Imm19(b), 19)]
  ELSE IF b[4] = 214 /\ b[3] \in {31, 63, 95} /\ b[2] < 4 /\ b[1] % 32 = 0 THEN
       [cls |-> "breg", op |-> IF b[3] = 31 THEN "BR" ELSE IF b[3] = 63 THEN "BLR" ELSE "RET", has |-> FALSE, disp |-> 0]
  ELSE IF Op0(b) \in {1, 3} THEN [cls |-> "unallocated", op |-> "", has |-> FALSE, disp |-> 0]
  ELSE [cls |-> "other", op |-> "", has |-> FALSE, disp |-> 0]

JudgeWord(e) ==
  IF e.panic # "" THEN "V:panic"
  ELSE IF e.changed THEN "V:answer-depends-on-what-was-decoded-before"
  ELSE LET c == Class(e.b) IN
       IF c.cls = "other" THEN "outside-model"
       ELSE IF c.op = "" THEN (IF e.err THEN "ok" ELSE "V:decodes-an-unallocated-encoding")
       ELSE IF e.err THEN "V:rejects-a-valid-encoding"
       ELSE IF e.op # c.op THEN "V:opcode"
       ELSE IF e.has # c.has THEN "V:pcrel-operand-presence"
       ELSE IF c.has /\ e.disp # c.disp THEN "V:displacement"
       ELSE "ok"
JudgeChunk(e) == IF e.panics # 0 THEN "V:panic-in-sweep" ELSE IF e.insts + e.errs # e.words THEN "V:neither-instruction-nor-error" ELSE "ok"
\* ---- agreement with the reference decoder on the whole word space (records of TestVerifA64Diff) ----
\* the system-instruction encodings goom deliberately leaves undecoded: SYS / SYSL, 1101 0101 00L0 1 op1 CRn CRm op2 Rt
\* (bits 31..22 = 1101010100, bit 20 = 0, bit 19 = 1); e.b = the word's four bytes, least significant first
SysSpace(e) == /\ e.b[4] = 213                                   \* 0xD5
               /\ e.b[3] \div 64 = 0                             \* bits 23, 22 = 00
               /\ (e.b[3] \div 16) % 2 = 0                       \* bit 20 = 0
               /\ (e.b[3] \div 8) % 2 = 1                        \* bit 19 = 1
SameFacts(e) == /\ e.err = e.rerr /\ e.panic = "" /\ e.rpanic = ""
                /\ (~e.err => /\ e.op = e.rop /\ e.has = e.rhas /\ (e.has => e.disp = e.rdisp))
JudgeDiff(e) == IF e.panic # "" THEN "V:panic"
                ELSE IF SameFacts(e) THEN (IF e.agree THEN "ok" ELSE "V:driver-and-judge-disagree")
                ELSE IF SysSpace(e) THEN "outside-model"
                ELSE IF e.err # e.rerr THEN "V:decodability-differs-from-reference"
                ELSE IF e.op # e.rop THEN "V:opcode-differs-from-reference"
                ELSE "V:displacement-differs-from-reference"
\* a chunk of the sweep: every word either agrees or lies in the exempt space; chunk 0xD5 is the only one that may hold exempt words
JudgeDChunk(e) == IF e.agree + e.sysdiff + e.otherdiff # e.words THEN "V:sweep-count"
                  ELSE IF e.otherdiff # 0 THEN "V:disagrees-with-reference"
                  ELSE IF e.sysdiff # 0 /\ e.chunk # 213 THEN "V:exempt-words-outside-the-system-space"
                  ELSE "ok"
Judge(e) == IF e.ev = "chunk" THEN JudgeChunk(e) ELSE IF e.ev = "diff" THEN JudgeDiff(e) ELSE IF e.ev = "dchunk" THEN JudgeDChunk(e) ELSE JudgeWord(e)
=============================================================================
