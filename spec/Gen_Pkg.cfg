SPECIFICATION Spec
CONSTANTS
  B = {"b1"}
  P = {"fn", "fn2"}
  K = {"func", "method"}
  MaxOps = 4
PROPERTY SnapsBack
CONSTRAINT Emit
CHECK_DEADLOCK FALSE
