--------------------------------- MODULE When ---------------------------------
(* C04: conditional stubs.  One target of signature class Sig, one handle; a well-formed
   configuration is: optional default first (Return), then any number of clauses
       When(e1..en).Return(r)      DefaultMatcher  (one expression per actual argument)
       In(t1, t2, ..).Return(r)    ContainsMatcher (a set of expression tuples)
   and a call returns the result of the first-registered clause whose expressions all accept the
   actual arguments, else the default, else panics "no suitable condition".
   Expressions: a plain value (equality), Any(), In(set).  The receiver of a method is ignored;
   variadic arguments are matched element by element after the fixed parameters.

   REQUIREMENT: ReqInvoke (operates on the flat list of actual arguments).
   MECHANISM:   ImplInvoke mirrors when.go / matcher.go / arg/expr.go: the arguments arrive as
                reflect values [receiver?] ++ fixed ++ [tail slice]; Match strips the receiver,
                expands the variadic tail (only the tail, since fix), compares lengths, evaluates. *)
EXTENDS Integers, Sequences, FiniteSets, TLC, Json, SequencesExt

CONSTANTS Sig,        \* [fixed: Nat, variadic: BOOLEAN, method: BOOLEAN, result: BOOLEAN, name: STRING]
          V,          \* argument values
          MaxTail,    \* longest variadic tail in calls and clauses
          MaxClauses,
          R           \* result values of clauses

None == [k |-> "none"]
ExprSet == [k : {"val"}, v : V] \cup {[k |-> "any"]} \cup {[k |-> "in", s |-> V \ {CHOOSE x \in V : \A y \in V : x >= y}]}

VARIABLES def, conds, hist
vars == <<def, conds, hist>>

Init == def = None /\ conds = <<>> /\ hist = <<>>

\* a clause has one expression per actual argument; for a variadic target goom requires at least as
\* many expressions as the function has parameters (i.e. a non-empty tail), cf. checkParams
Arities == IF Sig.variadic THEN (Sig.fixed + 1)..(Sig.fixed + MaxTail) ELSE {Sig.fixed}
\* ... but only where the configuration STARTS (CreateWhen / checkParams): a clause added to an existing configuration may name
\* exactly the fixed parameters - the condition "called without variadic arguments" (for a target without fixed parameters: When())
LaterArities == IF Sig.variadic THEN Sig.fixed..(Sig.fixed + MaxTail) ELSE {Sig.fixed}
Tuples(n) == [1..n -> ExprSet]
\* the actual-argument lists of the call domain
Calls == {[fixed |-> f, tail |-> t] : f \in [1..Sig.fixed -> V],
                                      t \in IF Sig.variadic THEN UNION {[1..n -> V] : n \in 0..MaxTail} ELSE {<<>>}}

Accept(e, x) == CASE e.k = "val" -> x = e.v
                  [] e.k = "any" -> TRUE
                  [] e.k = "in" -> x \in e.s
MatchTuple(es, args) == Len(es) = Len(args) /\ \A i \in 1..Len(es) : Accept(es[i], args[i])

(* ---------------- requirement ---------------- *)
ClauseMatches(c, args) == IF c.kind = "when" THEN MatchTuple(c.exprs, args)
                          ELSE \E i \in 1..Len(c.tuples) : MatchTuple(c.tuples[i], args)
ReqInvoke(call) ==
    LET args == call.fixed \o call.tail IN
    LET I == {i \in 1..Len(conds) : ClauseMatches(conds[i], args)} IN
    IF ~Sig.result THEN "r:none"              \* nothing to return; EmptyMatch is always the default
    ELSE IF I # {} THEN "r:" \o ToString(conds[CHOOSE i \in I : \A j \in I : i <= j].r)
    ELSE IF def # None THEN "r:" \o ToString(def.r)
    ELSE "panic:nocond"

(* ---------------- mechanism ---------------- *)
\* reflect values handed to the MakeFunc callback
Incoming(call) == (IF Sig.method THEN <<[rv |-> "recv"]>> ELSE <<>>)
                  \o [i \in 1..Sig.fixed |-> [rv |-> "val", v |-> call.fixed[i]]]
                  \o (IF Sig.variadic THEN <<[rv |-> "slice", xs |-> call.tail]>> ELSE <<>>)
Strip(in) == IF Sig.method THEN Tail(in) ELSE in
\* expansion of the variadic tail: every element of the LAST value becomes one argument
Expand(in) == IF ~Sig.variadic THEN [i \in 1..Len(in) |-> in[i].v]
              ELSE [i \in 1..(Len(in) - 1) |-> in[i].v] \o in[Len(in)].xs
ImplClause(c, in) == LET args == Expand(Strip(in)) IN
                     IF c.kind = "when" THEN MatchTuple(c.exprs, args)
                     ELSE \E i \in 1..Len(c.tuples) : MatchTuple(c.tuples[i], args)
ImplInvoke(call) ==
    LET in == Incoming(call) IN
    LET I == {i \in 1..Len(conds) : ImplClause(conds[i], in)} IN
    IF ~Sig.result THEN "r:none"
    ELSE IF I # {} THEN "r:" \o ToString(conds[CHOOSE i \in I : \A j \in I : i <= j].r)
    ELSE IF def # None THEN "r:" \o ToString(def.r)
    ELSE "panic:nocond"

(* ---------------- actions ---------------- *)
Default == /\ def = None /\ conds = <<>> /\ Sig.result
           /\ def' = [r |-> 9] /\ UNCHANGED conds
           /\ hist' = Append(hist, [op |-> "Default", r |-> 9])

AddWhen(es, r) == /\ Len(conds) < MaxClauses
                  /\ conds' = Append(conds, [kind |-> "when", exprs |-> es, r |-> r])
                  /\ UNCHANGED def
                  /\ hist' = Append(hist, [op |-> "When", exprs |-> es, r |-> r])

\* In-clauses: two tuples of the same arity
AddIn(t1, t2, r) == /\ Len(conds) < MaxClauses
                    /\ (def # None \/ conds # <<>>)       \* When.In needs an existing When object
                    /\ conds' = Append(conds, [kind |-> "in", tuples |-> <<t1, t2>>, r |-> r])
                    /\ UNCHANGED def
                    /\ hist' = Append(hist, [op |-> "In", tuples |-> <<t1, t2>>, r |-> r])

\* When.Matches(Pair{args1, r1}, Pair{args2, r2}): two DefaultMatcher clauses at once; the default is untouched
AddMatches(es1, r1, es2, r2) ==
    /\ Len(conds) + 2 <= MaxClauses + 1
    /\ (def # None \/ conds # <<>>)
    /\ conds' = conds \o <<[kind |-> "when", exprs |-> es1, r |-> r1], [kind |-> "when", exprs |-> es2, r |-> r2]>>
    /\ UNCHANGED def
    /\ hist' = Append(hist, [op |-> "Matches", pairs |-> <<[exprs |-> es1, r |-> r1], [exprs |-> es2, r |-> r2]>>])

\* probe every call of the domain (single results: calls do not change the state)
CallAll == /\ (def # None \/ conds # <<>>)
           /\ hist # <<>> /\ hist[Len(hist)].op # "CallAll"
           /\ hist' = Append(hist, [op |-> "CallAll",
                                    calls |-> [c \in Calls |-> [req |-> ReqInvoke(c), impl |-> ImplInvoke(c)]]])
           /\ UNCHANGED <<def, conds>>

Closed == hist # <<>> /\ hist[Len(hist)].op = "CallAll"
Next == /\ ~Closed
        /\ \/ Default
           \/ \E n \in (IF def # None \/ conds # <<>> THEN LaterArities ELSE Arities), r \in R : \E es \in Tuples(n) : AddWhen(es, r)
           \/ \E n \in Arities, r \in R : \E t1 \in Tuples(n), v2 \in V :
                  /\ t1[1].k = "val" /\ t1[1].v < v2 /\ \A i \in 2..n : t1[i].k # "in"
                  /\ AddIn(t1, [t1 EXCEPT ![1] = [k |-> "val", v |-> v2]], r)
           \/ \E n \in Arities, r1, r2 \in R : \E es1 \in Tuples(n), v2 \in V :
                  /\ es1[1].k = "val" /\ es1[1].v # v2 /\ \A i \in 2..n : es1[i].k = "any"
                  /\ AddMatches(es1, r1, [es1 EXCEPT ![1] = [k |-> "val", v |-> v2]], r2)
           \/ CallAll
Spec == Init /\ [][Next]_vars

\* design-level: the mechanism selects what the requirement demands, for every call of the domain
Conforms == Closed => \A c \in Calls : hist[Len(hist)].calls[c].req = hist[Len(hist)].calls[c].impl
\* hist with the function over Calls rendered as a sequence (JSON friendly)
Render(h) == [i \in 1..Len(h) |->
                 IF h[i].op # "CallAll" THEN h[i]
                 ELSE [op |-> "CallAll",
                       calls |-> LET sq == SetToSeq(Calls) IN
                                 [j \in 1..Len(sq) |-> [fixed |-> sq[j].fixed, tail |-> sq[j].tail, res |-> h[i].calls[sq[j]].req]]]]
Emit == Closed => PrintT(ToJson(Render(hist)))
=============================================================================
