---- MODULE MC_Goom ----
EXTENDS Goom
RS_12 == {<<1>>, <<1, 2>>}
RS_3 == {<<1>>, <<2, 1>>, <<1, 2, 3>>}
AllOps == {"Apply", "ApplyO", "Return", "Returns", "When", "Cancel", "Reset", "Call", "CallPh"}
RS_1 == {<<1>>, <<2>>}
RS_1234 == {<<1>>, <<1, 2>>, <<2, 1, 3>>, <<1, 2, 3, 4>>}
ImageOps == {"Apply", "ApplyO", "Return", "When", "Cancel", "Reset"}
StubOps == {"Apply", "Return", "Returns", "When", "Cancel", "Reset", "Call"}
RS_EXT == {<<1, 2>>, <<3>>}
ExtOps == {"Returns", "Call"}      \* sequences extended between calls, also after calls beyond the end
SeqOps == {"Return", "Returns", "When", "Call", "Reset"}
LogNames == {"OpenDebug", "CloseDebug", "OpenTrace", "CloseTrace"}
LogOps == AllOps \cup LogNames
RejectOps == StubOps \cup {"Mistake", "WhenBad"}
ImageHeldOps == ImageOps \cup {"Held", "Call"}
HeldOps == AllOps \cup {"Held"}
GenericOps == {"Apply", "Return", "Returns", "Cancel", "Reset", "Call", "Held"}   \* generic function instantiations: no parameters, hence no When
HeldStubOps == StubOps \cup {"Held"}
====
