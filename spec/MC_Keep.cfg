SPECIFICATION Spec
CONSTANTS
  B = {"b1", "b2"}
  T = {"f", "g"}
  CB = {"c1"}
  MaxOps = 6
INVARIANT NoDangling
INVARIANT CallsConform
VIEW View
CHECK_DEADLOCK FALSE
