SPECIFICATION Spec
CONSTANTS
  V = {"i1", "i2"}
  M <- M2
  B = {"b1"}
  Kinds = {"apply", "stub", "when"}
  Args = {7, 8}
  MaxOps = 5
  Ops <- AllOps
INVARIANT CallsConform
INVARIANT VarsConform
INVARIANT NoDangling
VIEW View
CHECK_DEADLOCK FALSE
