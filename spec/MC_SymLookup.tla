---- MODULE MC_SymLookup ----
EXTENDS SymLookup
VARIABLE x
Init == x = 0
Next == UNCHANGED x
Spec == Init /\ [][Next]_x
Inv == Conforms
====
