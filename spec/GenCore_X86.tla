---- MODULE GenCore_X86 ----
(* Development-time tool (bin/gen_x86core): derives the claimed domain Core of the format model from
   sweeps of compiler-generated code on the UNCHANGED tree: signatures on which model and pinned decoder
   agree for every record seen, minus signatures with any disagreement (reported separately). *)
EXTENDS X86Format, Json, TLC, FiniteSets
CONSTANT TraceFile
Trace == ndJsonDeserialize(TraceFile)
VARIABLES l, good, dis
Min(a, c) == IF a < c THEN a ELSE c
Init == l = 1 /\ good = {} /\ dis = {}
Next == /\ l <= Len(Trace)
        /\ LET e == Trace[l] IN LET n == Min(e.n, Len(e.b)) IN LET d == Decode(e.b, n) IN LET s == Sig(e.b, n) IN
           IF d.cls \in {"vex", "outside"} THEN UNCHANGED <<good, dis>>
           ELSE IF ~e.err /\ d.ok /\ d.len = e.len /\ d.rel = e.rel /\ (d.rel = 0 \/ d.off = e.off)
                THEN good' = good \cup {s} /\ UNCHANGED dis
                ELSE dis' = dis \cup {<<s, l>>} /\ UNCHANGED good
        /\ l' = l + 1
Spec == Init /\ [][Next]_<<l, good, dis>>
Done == (l = Len(Trace) + 1) => PrintT(ToJson([summary |-> TRUE, good |-> good, dis |-> dis]))
====
