SPECIFICATION Spec
CONSTANTS
  Targets <- TS
  Body <- BodyOf
  B = {"b1", "b2"}
  MaxOps = 4
INVARIANT Conforms
PROPERTY OnlyNamed
VIEW View
CHECK_DEADLOCK FALSE
