SPECIFICATION Spec
CONSTANTS
  G = {1, 2, 3, 4}
  N = 1
  K = 2
INVARIANT Emit
CHECK_DEADLOCK FALSE
