---------------------------------- MODULE Pkg ----------------------------------
(* C12, last sentence: "A package override given with Pkg applies to the next lookup only."
   Three packages define an unexported function of the same name `dup`: the caller's own package ("cur") and two
   others.  Builder state: override[b] (builder.go pkgName / reset2CurPkg).
     SetPkg(b, p)     b.Pkg(p)
     MockDup(b)       b.ExportFunc("dup").Apply(cb): resolves dup in override[b], then the override snaps back
     LookupOther(b)   any other lookup (b.Func(F)) also consumes the override
   Requirement = mechanism here (the statement IS the mechanism); what is checked is the real library. *)
EXTENDS Integers, Sequences, FiniteSets, TLC, Json
CONSTANTS B, P, MaxOps        \* P: packages other than "cur"
VARIABLES override, mocked, nid, hist
vars == <<override, mocked, nid, hist>>
Pk == P \cup {"cur"}
Init == override = [b \in B |-> "cur"] /\ mocked = [p \in Pk |-> 0] /\ nid = 0 /\ hist = <<>>
Obs == [p \in Pk |-> IF mocked'[p] = 0 THEN "orig" ELSE "repl:" \o ToString(mocked'[p])]
SetPkg(b, p) == /\ override' = [override EXCEPT ![b] = p] /\ UNCHANGED <<mocked, nid>>
                /\ hist' = Append(hist, [op |-> "SetPkg", b |-> b, p |-> p, exp |-> Obs, pkgname |-> p])
MockDup(b) == /\ nid' = nid + 1
              /\ mocked' = [mocked EXCEPT ![override[b]] = nid + 1]
              /\ override' = [override EXCEPT ![b] = "cur"]
              /\ hist' = Append(hist, [op |-> "MockDup", b |-> b, id |-> nid + 1, exp |-> Obs, pkgname |-> "cur"])
LookupOther(b) == /\ override' = [override EXCEPT ![b] = "cur"] /\ UNCHANGED <<mocked, nid>>
                  /\ hist' = Append(hist, [op |-> "LookupOther", b |-> b, exp |-> Obs, pkgname |-> "cur"])
\* one builder per history owns all mocks here: Reset restores every dup it mocked
Reset(b) == /\ mocked' = [p \in Pk |-> 0] /\ UNCHANGED <<override, nid>>
            /\ hist' = Append(hist, [op |-> "Reset", b |-> b, exp |-> Obs, pkgname |-> override[b]])
Finish == Len(hist) = MaxOps /\ hist' = Append(hist, [op |-> "End"]) /\ UNCHANGED <<override, mocked, nid>>
Next == \/ Finish
        \/ /\ Len(hist) < MaxOps
           /\ \E b \in B : (\E p \in P : SetPkg(b, p)) \/ MockDup(b) \/ LookupOther(b) \/ Reset(b)
Spec == Init /\ [][Next]_vars
\* the override never survives a lookup
SnapsBack == [][\A b \in B : (Len(hist') > Len(hist) /\ hist'[Len(hist')].op \in {"MockDup", "LookupOther"} /\ hist'[Len(hist')].b = b) => override'[b] = "cur"]_vars
Emit == Len(hist) = MaxOps + 1 => PrintT(ToJson(SubSeq(hist, 1, MaxOps)))
=============================================================================
