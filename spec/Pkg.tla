---------------------------------- MODULE Pkg ----------------------------------
(* C12, last sentence: "A package override given with Pkg applies to the next lookup only."
   Three packages define an unexported function of the same name `dup`: the caller's own package ("cur") and two
   others.  Builder state: override[b] (builder.go pkgName / reset2CurPkg).
     SetPkg(b, p)     b.Pkg(p)
     MockDup(b, k)    k = "func":   b.ExportFunc("dup").Apply(cb): resolves dup in override[b], then the override snaps back
                      k = "method": b.ExportStruct("*dupS").Method("Get").Apply(cb): the three packages also define an unexported
                                    struct type of the same name with a method of the same name (C06: a type is addressed by
                                    package AND name; a handle found for one package must never serve another)
     LookupOther(b)   any other lookup (b.Func(F)) also consumes the override
   Requirement = mechanism here (the statement IS the mechanism); what is checked is the real library. *)
EXTENDS Integers, Sequences, FiniteSets, TLC, Json
CONSTANTS B, P, K, MaxOps        \* P: packages other than "cur"; K: kinds of same-named symbol ("func", "method")
VARIABLES override, mocked, nid, hist
vars == <<override, mocked, nid, hist>>
Pk == P \cup {"cur"}
Init == override = [b \in B |-> "cur"] /\ mocked = [k \in {"func", "method"} |-> [p \in Pk |-> 0]] /\ nid = 0 /\ hist = <<>>
ObsK(k) == [p \in Pk |-> IF mocked'[k][p] = 0 THEN "orig" ELSE "repl:" \o ToString(mocked'[k][p])]
Obs == ObsK("func")
ObsM == ObsK("method")
SetPkg(b, p) == /\ override' = [override EXCEPT ![b] = p] /\ UNCHANGED <<mocked, nid>>
                /\ hist' = Append(hist, [op |-> "SetPkg", b |-> b, p |-> p, exp |-> Obs, expm |-> ObsM, pkgname |-> p])
MockDup(b, k) == /\ nid' = nid + 1
              /\ mocked' = [mocked EXCEPT ![k][override[b]] = nid + 1]
              /\ override' = [override EXCEPT ![b] = "cur"]
              /\ hist' = Append(hist, [op |-> "MockDup", b |-> b, k |-> k, id |-> nid + 1, exp |-> Obs, expm |-> ObsM, pkgname |-> "cur"])
LookupOther(b) == /\ override' = [override EXCEPT ![b] = "cur"] /\ UNCHANGED <<mocked, nid>>
                  /\ hist' = Append(hist, [op |-> "LookupOther", b |-> b, exp |-> Obs, expm |-> ObsM, pkgname |-> "cur"])
\* one builder per history owns all mocks here: Reset restores every dup it mocked
Reset(b) == /\ mocked' = [k \in {"func", "method"} |-> [p \in Pk |-> 0]] /\ UNCHANGED <<override, nid>>
            /\ hist' = Append(hist, [op |-> "Reset", b |-> b, exp |-> Obs, expm |-> ObsM, pkgname |-> override[b]])
Finish == Len(hist) = MaxOps /\ hist' = Append(hist, [op |-> "End"]) /\ UNCHANGED <<override, mocked, nid>>
Next == \/ Finish
        \/ /\ Len(hist) < MaxOps
           /\ \E b \in B : (\E p \in P : SetPkg(b, p)) \/ (\E k \in K : MockDup(b, k)) \/ LookupOther(b) \/ Reset(b)
Spec == Init /\ [][Next]_vars
\* the override never survives a lookup
SnapsBack == [][\A b \in B : (Len(hist') > Len(hist) /\ hist'[Len(hist')].op \in {"MockDup", "LookupOther"} /\ hist'[Len(hist')].b = b) => override'[b] = "cur"]_vars
Emit == Len(hist) = MaxOps + 1 => PrintT(ToJson(SubSeq(hist, 1, MaxOps)))
=============================================================================
