--------------------------------- MODULE Reject ---------------------------------
(* C13, scenario table: configuration mistakes outside the func/method lifecycle alphabet of Goom.tla
   (non-function target, too few condition arguments, unknown method / symbol, non-pointer or non-interface
   handed to Interface, first callback parameter not *IContext, placeholder too small for the trampoline).
   A recorded scenario: {mistake, prior ("never" / "same-builder" = the target is mocked / "after-reset" = the target was
   mocked and reset before, the patch table still remembers it), outcome, image, target, cause, followup}.
   Requirement: rejected at configuration time; the image unchanged; a target not mocked before is still not
   mocked; where goom constructs a typed error the cause chain reaches it; afterwards a correct configuration
   works and Reset restores. *)
EXTENDS Integers, Sequences, TLC
\* mistake class x signature x position of the offending argument
Systematic == {"apply-size@2", "apply-size@1of2", "apply-arity-fewer", "apply-result-size", "apply-result-count", "apply-no-result",
               "apply-variadic-size", "method-apply-arity", "method-apply-no-receiver", "method-apply-size", "method-ret-few",
               "method-ret-size", "when-few-variadic", "when-arg-size", "when-arg-size@2", "returns-size@2",
               "uemethod-unknown", "uefunc-ret-few", "uefunc-ret-size", "iface-ret-size", "iface-ret-few", "iface-apply-size", "origin-unrelocatable", "target-shorter-than-the-jump",
               "ret-size-struct", "ret-size-ptr", "when-arg-size-struct",
               "empty-method-name", "empty-method-name-apply", "empty-uemethod-name", "empty-uefunc-name", "iface-empty-method-name",
               "iface-return-before-as", "iface-returns-before-as", "iface-when-before-as", "method-when-few", "nil-func-target",
               "var-apply-non-func", "var-apply-two-results",
               "when-few-chained-variadic", "when-few-chained-fixed", "when-few-chained-variadic-method", "matches-few-variadic",
               "ret-size-after-twin", "returns-size-after-twin"}
TypedCause == {"when-few", "ret-few", "iface-not-interface", "iface-first-param", "iface-arity"}
Known == {"non-function", "when-few", "ret-few", "ret-size", "unknown-method", "unknown-symbol", "unknown-symbol-as",
          "iface-non-pointer", "iface-not-interface", "iface-first-param", "iface-arity", "iface-unknown-method",
          "origin-too-small", "apply-arity", "apply-size"} \cup Systematic
Judge(e) == IF e.mistake \notin Known THEN "V:unknown-scenario"
            ELSE IF e.outcome # "rejected" THEN "V:accepted-silently"
            ELSE IF e.image # "ok" THEN "V:image-changed:" \o e.image
            ELSE IF e.prior \in {"never", "after-reset"} /\ e.target # "orig" THEN "V:unmocked-target-now-behaves-as-" \o e.target
            ELSE IF e.mistake \in TypedCause /\ e.cause # "typed" THEN "V:cause-chain-not-typed"
            ELSE IF e.followup # "ok" THEN "V:followup-" \o e.followup
            ELSE "ok"
=============================================================================
