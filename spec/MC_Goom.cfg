SPECIFICATION Spec
CONSTANTS
  B = {"b1"}
  T = {"f", "g"}
  CB = {"c1"}
  RS <- RS_12
  A = {0, 1}
  Ops <- AllOps
  MaxOps = 5
INVARIANT CallsConform
INVARIANT ImageConforms
INVARIANT CapturedPristine
INVARIANT GuardsPristine
INVARIANT CursorsInRange
PROPERTY ResetRestores
PROPERTY OthersUntouched
VIEW View
CHECK_DEADLOCK FALSE
