SPECIFICATION Spec
CONSTANTS
  MaxOps = 4
PROPERTY ResetAll
CONSTRAINT Emit
CHECK_DEADLOCK FALSE
