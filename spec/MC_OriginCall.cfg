SPECIFICATION Spec
CONSTANTS
  SplitStack = TRUE
  Via = "mock"
INVARIANT ConformsUpToF5
INVARIANT OnlyF5
INVARIANT F5Outcome
CHECK_DEADLOCK FALSE
CONSTRAINT Emit
