SPECIFICATION Spec
CONSTANTS
  N = 4
  GroupNames <- GNs
  Groups <- G4
  Obj <- Obj4I
  HasCancel = FALSE
  CondSizes = {}
  SeqSizes = {}
  MaxOps = 6
INVARIANT OwnedIffMocked
PROPERTY ResetExact
VIEW View
CHECK_DEADLOCK FALSE
