--------------------------------- MODULE Seq ---------------------------------
(* C05, concurrent part: G callers invoke one stub whose result sequence has N elements
   (N >= 2), each K times.  BaseMatcher.Result is lock-free; its three atomic steps are
   separate actions so TLC explores every interleaving:

       Load(g)     cur := atomic.LoadInt32(&curNum)          (hook matcher.loaded)
       RetLast(g)  if cur >= N  return results[N-1]
       Add(g)      atomic.AddInt32(&curNum, 1)                         (hook matcher.added)
       Ret(g)      return results[cur]
   (Add and Ret are separate steps although nothing shared is touched between them in the pinned code: the replay holds a
   caller at the hook after its add while others run, so an implementation that does more after the add - e.g. "corrects"
   the cursor - is exercised with its extra step interleaved.)
       Probe       when every caller is done: one more call by a fresh caller (0): element min(curNum, N - 1)

   hist records every step with the index returned (-1 while the call is still running). *)
EXTENDS Integers, Sequences, FiniteSets, TLC, Json

CONSTANTS G, N, K

VARIABLES curNum, pc, loc, done, started, retd, hist
\* started[g]: real-time ticket at which g's current call began; retd: tickets of completed calls with index
vars == <<curNum, pc, loc, done, started, retd, hist>>

Init == /\ curNum = 0
        /\ pc = [g \in G |-> "idle"]
        /\ loc = [g \in G |-> 0]
        /\ done = [g \in G |-> 0]
        /\ started = [g \in G |-> 0]
        /\ retd = <<>>            \* sequence of [g, idx, startT, endT]; time = Len(hist)
        /\ hist = <<>>

Load(g) == /\ pc[g] = "idle" /\ done[g] < K
           /\ loc' = [loc EXCEPT ![g] = curNum]
           /\ pc' = [pc EXCEPT ![g] = "loaded"]
           /\ started' = [started EXCEPT ![g] = Len(hist) + 1]
           /\ hist' = Append(hist, [g |-> g, act |-> "Load", idx |-> -1])
           /\ UNCHANGED <<curNum, done, retd>>

RetLast(g) == /\ pc[g] = "loaded" /\ loc[g] >= N
              /\ pc' = [pc EXCEPT ![g] = "idle"]
              /\ done' = [done EXCEPT ![g] = @ + 1]
              /\ retd' = Append(retd, [g |-> g, idx |-> N - 1, s |-> started[g], e |-> Len(hist) + 1])
              /\ hist' = Append(hist, [g |-> g, act |-> "RetLast", idx |-> N - 1])
              /\ UNCHANGED <<curNum, loc, started>>

Add(g) == /\ pc[g] = "loaded" /\ loc[g] < N
          /\ curNum' = curNum + 1
          /\ pc' = [pc EXCEPT ![g] = "added"]
          /\ hist' = Append(hist, [g |-> g, act |-> "Add", idx |-> -1])
          /\ UNCHANGED <<loc, started, done, retd>>

Ret(g) == /\ pc[g] = "added"
          /\ pc' = [pc EXCEPT ![g] = "idle"]
          /\ done' = [done EXCEPT ![g] = @ + 1]
          /\ retd' = Append(retd, [g |-> g, idx |-> loc[g], s |-> started[g], e |-> Len(hist) + 1])
          /\ hist' = Append(hist, [g |-> g, act |-> "Ret", idx |-> loc[g]])
          /\ UNCHANGED <<curNum, loc, started>>

AllDone == \A g \in G : done[g] = K /\ pc[g] = "idle"
Probed == hist # <<>> /\ hist[Len(hist)].act = "Probe"
Probe == /\ AllDone /\ ~Probed
         /\ hist' = Append(hist, [g |-> 0, act |-> "Probe", idx |-> IF curNum >= N THEN N - 1 ELSE curNum])
         /\ UNCHANGED <<curNum, pc, loc, done, started, retd>>

Next == (\E g \in G : Load(g) \/ RetLast(g) \/ Add(g) \/ Ret(g)) \/ Probe
Spec == Init /\ [][Next]_vars

\* ---- what C05 states for concurrent callers ----
InRange == \A i \in 1..Len(retd) : retd[i].idx \in 0..(N - 1)
CursorMonotone == [][curNum' >= curNum]_vars
\* positions never go backwards for one caller
PerCallerMonotone == \A i, j \in 1..Len(retd) : (i < j /\ retd[i].g = retd[j].g) => retd[i].idx <= retd[j].idx
\* once the last element has been returned (call completed), every call that starts later returns it
RealTimeSticky == \A i, j \in 1..Len(retd) : (retd[i].idx = N - 1 /\ retd[i].e < retd[j].s) => retd[j].idx = N - 1
\* calls that do not overlap in time never go backwards
RealTimeMonotone == \A i, j \in 1..Len(retd) : retd[i].e < retd[j].s => retd[i].idx <= retd[j].idx
\* sequential use (one caller): the k-th call returns element min(k, N)
SequentialExact == (Cardinality(G) = 1) => \A i \in 1..Len(retd) : retd[i].idx = (IF i <= N THEN i - 1 ELSE N - 1)

Emit == Probed => PrintT(ToJson(hist))
View == <<curNum, pc, loc, done, Probed>>
=============================================================================
