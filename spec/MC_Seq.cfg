SPECIFICATION Spec
CONSTANTS
  G = {1, 2}
  N = 3
  K = 2
INVARIANT InRange
INVARIANT PerCallerMonotone
INVARIANT RealTimeSticky
INVARIANT RealTimeMonotone
INVARIANT SequentialExact
PROPERTY CursorMonotone
CHECK_DEADLOCK FALSE
