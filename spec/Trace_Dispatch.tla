---- MODULE Trace_Dispatch ----
(* Direction B for C01: records of the generated signature zoo.  Each record names the signature (parameter and
   result type names, variadic) and what the caller / callback observed; TLC recomputes the ABI layout of the
   signature with spec ABI (so the witness is tied to the model: NoClobber must hold for it) and requires ok. *)
EXTENDS ABI
CONSTANT TraceFile
Trace == ndJsonDeserialize(TraceFile)
VARIABLES l, bad, nok
Judge(e) == IF ~ClobberFree(e.params \o (IF e.variadic THEN <<"slice">> ELSE <<>>), e.results) THEN "V:model-says-entry-jump-clobbers-an-argument-register"
            ELSE IF e.ok THEN "ok" ELSE "V:" \o e.mode \o "/" \o e.moment \o "/" \o e.form
Init == l = 1 /\ bad = <<>> /\ nok = 0
Next == /\ l <= Len(Trace)
        /\ LET v == Judge(Trace[l]) IN
           /\ bad' = IF v = "ok" \/ Len(bad) >= 40 THEN bad ELSE Append(bad, <<v, l>>)
           /\ nok' = nok + (IF v = "ok" THEN 1 ELSE 0)
        /\ l' = l + 1
Spec == Init /\ [][Next]_<<l, bad, nok>>
Done == (l = Len(Trace) + 1) => PrintT(ToJson([summary |-> TRUE, nok |-> nok, bad |-> bad]))
Accepted == TLCGet("stats").diameter - 1 = Len(Trace)
====
