SPECIFICATION Spec
CONSTANTS
  P = {1, 2}
  Sizes = {1, 3}
  K = 2
  R = 6
  MmapWorks = FALSE
CONSTRAINT Emit
CHECK_DEADLOCK FALSE
