SPECIFICATION Spec
CONSTANTS
  T = {"f", "g", "h"}
  MaxOps = 14
  Ops <- AllOps
  Disciplined = FALSE
INVARIANT Emit
CHECK_DEADLOCK FALSE
