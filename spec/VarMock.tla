------------------------------ MODULE VarMock ------------------------------
(* Variable mocks (C08): Builder.Var / Builder.UnExportedVar, Set, Apply, Cancel, Reset.

   Mechanism layer (mirrors var.go / builder.go):
     val[x]            contents of the package variable
     mk[b][x]          the cache entry "var_<addr>" of builder b:
                         ex        an entry exists
                         canceled  Cancel ran on it (a later lookup replaces it)
                         captured  the origin value has been captured
                         origin    the captured value
   Requirement layer (what C08 states, nothing else):
     rval[x]           what every reader must observe
     pre[b][x]         value held before the first mock of x in builder b (Unset if none)

   One action per public call; the call's return is the linearization point
   (sequential API).  Each action appends the op and the *required* observable
   to hist, so a behaviour of this spec is directly a test script with oracle. *)
EXTENDS Integers, Sequences, FiniteSets, TLC, Json

CONSTANTS X,        \* variable names
          V,        \* values that can be Set/Applied
          X0,       \* [X -> value] initial contents
          B,        \* builders
          Owner,    \* [X -> B] which builder mocks which variable (disjoint use, cf. C11)
          Vias,     \* subset of {"lookup", "held"}: b.Var(&x) written out again / the VarMock value it returned earlier, kept
          MaxOps

Unset == "unset"

VARIABLES val, mk, rval, pre, hist
vars == <<val, mk, rval, pre, hist>>

NoMk == [ex |-> FALSE, canceled |-> FALSE, captured |-> FALSE, origin |-> Unset]

Init == /\ val = X0
        /\ mk = [b \in B |-> [x \in X |-> NoMk]]
        /\ rval = X0
        /\ pre = [b \in B |-> [x \in X |-> Unset]]
        /\ hist = <<>>

\* Builder.Var(&x): the cached mocker is reused unless it was canceled
Lookup(b, x) == IF mk[b][x].ex /\ ~mk[b][x].canceled THEN mk[b][x] ELSE [NoMk EXCEPT !.ex = TRUE]

\* the mocker an instruction works on: a lookup, or the kept value of the last lookup (also when it was cancelled)
Handle(b, x, via) == IF via = "held" THEN mk[b][x] ELSE Lookup(b, x)
CanUse(b, x, via) == via \in Vias /\ (via = "held" => mk[b][x].ex)

\* doSet: capture the origin once, write the value; a Set re-activates a cancelled mocker (since the fix of F27)
DoSet(m, x) == IF m.captured THEN [m EXCEPT !.canceled = FALSE] ELSE [m EXCEPT !.captured = TRUE, !.origin = val[x], !.canceled = FALSE]

\* defaultVarMocker.Cancel on record m for variable x: new contents of x
CancelVal(m, cur) == IF m.captured THEN m.origin ELSE cur

Log(rec) == hist' = Append(hist, rec)

SetOp(opname, b, x, v, via) ==
    /\ Owner[x] = b /\ CanUse(b, x, via)
    /\ LET m == DoSet(Handle(b, x, via), x) IN
       /\ mk' = [mk EXCEPT ![b][x] = m]
       /\ val' = [val EXCEPT ![x] = v]
    /\ pre' = [pre EXCEPT ![b][x] = IF @ = Unset THEN rval[x] ELSE @]
    /\ rval' = [rval EXCEPT ![x] = v]
    /\ Log([op |-> opname, b |-> b, x |-> x, v |-> v, via |-> via, obs |-> rval', panic |-> ""])

Set(b, x, v, via)   == SetOp("VarSet", b, x, v, via)
Apply(b, x, v, via) == SetOp("VarApply", b, x, v, via)

\* b.Var(&x).Cancel(): lookup (possibly a fresh, never-set mocker) then Cancel
Cancel(b, x, via) ==
    /\ Owner[x] = b /\ CanUse(b, x, via)
    /\ LET m == Handle(b, x, via) IN
       /\ val' = [val EXCEPT ![x] = CancelVal(m, @)]
       /\ mk' = [mk EXCEPT ![b][x] = [m EXCEPT !.canceled = TRUE]]
    /\ rval' = [rval EXCEPT ![x] = IF pre[b][x] = Unset THEN @ ELSE pre[b][x]]
    /\ pre' = [pre EXCEPT ![b][x] = Unset]
    /\ Log([op |-> "VarCancel", b |-> b, x |-> x, via |-> via, obs |-> rval', panic |-> ""])

\* Builder.Reset: Cancel on every cached mocker (canceled ones included; they re-write
\* their captured origin, which equals the current contents under disjoint use)
Reset(b) ==
    /\ val' = [x \in X |-> IF mk[b][x].ex THEN CancelVal(mk[b][x], val[x]) ELSE val[x]]
    /\ mk' = [mk EXCEPT ![b] = [x \in X |-> IF mk[b][x].ex THEN [mk[b][x] EXCEPT !.canceled = TRUE] ELSE mk[b][x]]]
    /\ rval' = [x \in X |-> IF pre[b][x] = Unset THEN rval[x] ELSE pre[b][x]]
    /\ pre' = [pre EXCEPT ![b] = [x \in X |-> Unset]]
    /\ Log([op |-> "Reset", b |-> b, obs |-> rval', panic |-> ""])

\* the last step of a generated behaviour: a single successor, so that in -simulate mode exactly
\* the behaviour TLC walked is printed (constraints/invariants are evaluated on every candidate successor)
Finish == Len(hist) = MaxOps /\ hist' = Append(hist, [op |-> "End"]) /\ UNCHANGED <<val, mk, rval, pre>>

Next == \/ Finish
        \/ /\ Len(hist) < MaxOps
           /\ \/ \E b \in B, x \in X, v \in V, via \in Vias : Set(b, x, v, via) \/ Apply(b, x, v, via)
              \/ \E b \in B, x \in X, via \in Vias : Cancel(b, x, via)
              \/ \E b \in B : Reset(b)

Spec == Init /\ [][Next]_vars

-----------------------------------------------------------------------------
\* Design-level checks (TLC, MC_VarMock.cfg)
Conforms == val = rval                          \* mechanism delivers what C08 demands
RestoredAfterReset ==                           \* action property: Reset(b) restores every pre-mock value
    [][\A b \in B : (Len(hist') > Len(hist) /\ hist'[Len(hist')].op = "Reset" /\ hist'[Len(hist')].b = b)
          => \A x \in X : pre[b][x] # Unset => val'[x] = pre[b][x]]_vars
NeverSetUntouched ==                            \* cancelling a never-set mock changes nothing
    [][\A x \in X : (Len(hist') > Len(hist) /\ hist'[Len(hist')].op = "VarCancel" /\ hist'[Len(hist')].x = x
                     /\ pre[Owner[x]][x] = Unset) => val'[x] = val[x]]_vars
OthersUntouched ==                              \* an op on x never changes another variable
    [][\A x \in X : (Len(hist') > Len(hist) /\ hist'[Len(hist')].op \in {"VarSet","VarApply","VarCancel"}
                     /\ hist'[Len(hist')].x # x) => val'[x] = val[x]]_vars
View == <<val, mk, rval, pre, Len(hist)>>

\* Behaviour generation (Gen_VarMock.cfg): print every history of length MaxOps
Emit == Len(hist) = MaxOps + 1 => PrintT(ToJson(SubSeq(hist, 1, MaxOps)))
=============================================================================
