--------------------------------- MODULE Method ---------------------------------
(* C06: mocking a method by name replaces exactly that method, for every instance.
   Targets are (type, method) pairs; Body(t) is the machine code a target resolves to:
     - an ordinary method: its own body
     - a method of an instantiated generic type: the body shared by all instantiations of the same GC shape
       (goom patches the shape body behind the per-instantiation wrapper)
   MECHANISM: entry[body] = 0 (pristine) or the id of the replacement; each builder remembers which bodies it
   patched.  REQUIREMENT: exp[t] per target; instantiations of the SAME shape as a mocked one are "free"
   (the property only forbids affecting a DIFFERENT shape). *)
EXTENDS Integers, Sequences, FiniteSets, TLC, Json

CONSTANTS Targets, Body, B, MaxOps   \* Body: [Targets -> body name]

VARIABLES entry, mine, nid, lastKind, exp, hist
\* lastKind[b][t]: kind of b's last instruction for t (a second Return on a stubbed handle only extends the stub:
\* nothing is re-applied and the result is left unconstrained, cf. C12)
vars == <<entry, mine, nid, lastKind, exp, hist>>
Bodies == {Body[t] : t \in Targets}

Init == /\ entry = [c \in Bodies |-> 0]
        /\ mine = [b \in B |-> {}]
        /\ nid = 0
        /\ lastKind = [b \in B |-> [t \in Targets |-> "none"]]
        /\ exp = [t \in Targets |-> 0]          \* 0 = original, n = replacement n, -1 = free
        /\ hist = <<>>

Obs(e) == [t \in Targets |-> IF e[t] = 0 THEN "orig" ELSE IF e[t] = -1 THEN "free" ELSE "repl:" \o ToString(e[t])]

Mock(b, t, kind) ==
    /\ \A b2 \in B \ {b} : Body[t] \notin mine[b2]        \* disjoint builders (C11)
    /\ nid' = nid + 1
    /\ lastKind' = [lastKind EXCEPT ![b][t] = kind]
    /\ IF kind = "return" /\ lastKind[b][t] = "return"
       THEN /\ UNCHANGED <<entry, mine>>
            /\ exp' = [x \in Targets |-> IF Body[x] = Body[t] THEN -1 ELSE exp[x]]
       ELSE /\ entry' = [entry EXCEPT ![Body[t]] = nid + 1]
            /\ mine' = [mine EXCEPT ![b] = @ \cup {Body[t]}]
            /\ exp' = [x \in Targets |-> IF x = t THEN nid + 1 ELSE IF Body[x] = Body[t] THEN -1 ELSE exp[x]]
    /\ hist' = Append(hist, [op |-> "Mock", b |-> b, t |-> t, kind |-> kind, id |-> nid + 1])

Reset(b) ==
    /\ entry' = [c \in Bodies |-> IF c \in mine[b] THEN 0 ELSE entry[c]]
    /\ mine' = [mine EXCEPT ![b] = {}]
    /\ exp' = [x \in Targets |-> IF Body[x] \in mine[b] THEN 0 ELSE exp[x]]
    /\ UNCHANGED nid
    /\ lastKind' = [lastKind EXCEPT ![b] = [t \in Targets |-> "none"]]
    /\ hist' = Append(hist, [op |-> "Reset", b |-> b])

\* call every method of every type on three instances; also the method promoted from an embedded type
CallAll == /\ hist # <<>> /\ hist[Len(hist)].op # "CallAll"
           /\ hist' = Append(hist, [op |-> "CallAll", exp |-> Obs(exp),
                                    impl |-> [t \in Targets |-> IF entry[Body[t]] = 0 THEN "orig" ELSE "repl:" \o ToString(entry[Body[t]])]])
           /\ UNCHANGED <<entry, mine, nid, lastKind, exp>>

Finish == Len(hist) = MaxOps /\ hist' = Append(hist, [op |-> "End"]) /\ UNCHANGED <<entry, mine, nid, lastKind, exp>>
Next == \/ Finish
        \/ /\ Len(hist) < MaxOps
           /\ \/ \E b \in B, t \in Targets, k \in {"apply", "return"} : Mock(b, t, k)
              \/ \E b \in B : Reset(b)
              \/ CallAll
Spec == Init /\ [][Next]_vars

Last == hist[Len(hist)]
Conforms == (Len(hist) > 0 /\ Last.op = "CallAll") => \A t \in Targets : Last.exp[t] \in {"free", Last.impl[t]}
OnlyNamed == [][\A c \in Bodies : (Len(hist') > Len(hist) /\ hist'[Len(hist')].op = "Mock" /\ c # Body[hist'[Len(hist')].t]) => entry'[c] = entry[c]]_vars
View == <<entry, mine, nid, lastKind, exp, Len(hist)>>
Emit == Len(hist) = MaxOps + 1 => PrintT(ToJson(SubSeq(hist, 1, MaxOps)))
=============================================================================
