SPECIFICATION Spec
CONSTANTS
  Procs = {1, 2}
  PageOf <- PO2
INVARIANT MutexP
INVARIANT MutexM
INVARIANT XAlways
INVARIANT WOnlyInM
INVARIANT Quiescent
CONSTRAINT Bound
CHECK_DEADLOCK FALSE
