SPECIFICATION Spec
CONSTANTS
  Procs = {1, 2}
  PageOf <- PO2
  RDepth = 1
INVARIANT MutexP
INVARIANT MutexM
INVARIANT XAlways
INVARIANT WOnlyInM
INVARIANT Quiescent
INVARIANT NoReadWhileWrite
CONSTRAINT Bound
CHECK_DEADLOCK TRUE
