SPECIFICATION Spec
INVARIANT Inv
