-------------------------------- MODULE ArgConv --------------------------------
(* C09: how values given to Return / Returns / When reach callers: a decision table over
   (declared kind of the result or parameter) x (class of the supplied value).
     Req  : what the property states ("free" where it is silent)
     Impl : arm-by-arm transcription of arg.toValue / cast (arg/value.go)
   TLC checks Impl = Req on every constrained cell; Judge is the oracle for outcomes recorded from the
   real library (Trace_ArgConv.tla). *)
EXTENDS Integers, Sequences, FiniteSets, TLC

IntKinds == {"int", "int64", "uint64", "uint", "uintptr"}      \* (int32 etc.: a plain int differs in size and is rejected, cell diffsize)
Kinds == {"ptr", "error", "any", "slice", "map", "chan", "func", "struct", "handle", "array", "int", "float", "string", "bool"} \cup IntKinds   \* handle: a struct with exactly one pointer field
\* "intconst": a condition written as a plain constant (type int) on an integer parameter of kind k (When path only):
\* it selects exactly the calls whose argument has that value - compared as a value of the declared type, however large
Classes == {"nil", "typednil", "zero", "val", "concrete", "nilconcrete", "lookalike", "samesize", "diffsize", "otherkind", "intconst"}
Nilable == {"ptr", "error", "any", "slice", "map", "chan", "func"}
IfaceK == {"error", "any"}

\* which cells exist
Cell(k, c) == CASE c = "intconst" -> k \in IntKinds
                [] k \in IntKinds \ {"int"} -> FALSE
                [] c = "nil" -> TRUE
                [] c = "typednil" -> k \in {"ptr", "slice", "map", "chan", "func"}
                [] c \in {"zero", "val"} -> k \notin IfaceK
                [] c = "concrete" -> k \in IfaceK
                [] c = "nilconcrete" -> k \in IfaceK          \* a typed nil pointer IS a concrete value: (*T)(nil) into error / interface{}
                [] c = "lookalike" -> k \in {"struct", "ptr", "handle"}
                [] c = "samesize" -> k \in {"int", "float", "struct"}
                [] c = "diffsize" -> k \in {"int", "float", "struct", "array", "string", "bool", "slice", "map"}
                \* a value of another KIND whose size differs: a pointer, a scalar, a string, a slice where a struct / pointer / chan / func is declared
                [] c = "otherkind" -> k \in {"struct", "ptr", "handle", "chan", "func"}

Req(k, c) == CASE c = "intconst" -> "exact"
               [] c = "nil" -> (IF k \in Nilable THEN "typedzero" ELSE "free")
               [] c \in {"typednil", "zero", "val"} -> "same"
               [] c \in {"concrete", "nilconcrete"} -> "boxed"
               [] c = "lookalike" -> "retyped"
               [] c = "samesize" -> "free"            \* same size, other type or layout: the statement is silent
               [] c \in {"diffsize", "otherkind"} -> "rejected"

\* toValue, in the order of its arms
Impl(k, c) ==
    IF c = "intconst" THEN "exact" ELSE        \* arg.equal compares two numbers by their decimal text
    LET isnil == c = "nil" IN
    LET sameType == c \in {"typednil", "zero", "val"} IN
    LET sizeEq == c \notin {"diffsize", "otherkind"} IN
    IF ~isnil /\ ~sameType /\ k \in {"struct", "ptr", "handle"}
    THEN (IF ~sizeEq THEN "rejected" ELSE "retyped")                                    \* cast
    ELSE IF isnil /\ k \in (Nilable \cup {"array"}) THEN "typedzero"
    ELSE IF isnil THEN "rejected"                                                       \* v.Type() on the zero Value panics
    ELSE IF k \in IfaceK THEN "boxed"
    ELSE IF ~sizeEq THEN "rejected"
    ELSE IF sameType THEN "same" ELSE "unconverted"                                     \* same size, other type: passed on as is

CellsConform == \A k \in Kinds, c \in Classes : (Cell(k, c) /\ Req(k, c) # "free") => Impl(k, c) = Req(k, c)

Judge(e) == IF ~(e.kind \in Kinds /\ e.class \in Classes /\ Cell(e.kind, e.class)) THEN "V:unknown-cell"
            ELSE IF Req(e.kind, e.class) = "free" THEN "free"
            ELSE IF e.outcome = Req(e.kind, e.class) THEN "ok"
            ELSE "V:" \o e.outcome
=============================================================================
