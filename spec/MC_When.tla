---- MODULE MC_When ----
EXTENDS When
SigF1 == [fixed |-> 1, variadic |-> FALSE, method |-> FALSE, result |-> TRUE, name |-> "f1"]
\* typed classes (same shape as f2 / v1; the replay world maps the value tokens to strings, pointers compared by pointee, ...)
SigT2 == [fixed |-> 2, variadic |-> FALSE, method |-> FALSE, result |-> TRUE, name |-> "t2"]
SigTV == [fixed |-> 1, variadic |-> TRUE, method |-> FALSE, result |-> TRUE, name |-> "tv"]
SigF2 == [fixed |-> 2, variadic |-> FALSE, method |-> FALSE, result |-> TRUE, name |-> "f2"]
SigV0 == [fixed |-> 0, variadic |-> TRUE, method |-> FALSE, result |-> TRUE, name |-> "v0"]
SigV1 == [fixed |-> 1, variadic |-> TRUE, method |-> FALSE, result |-> TRUE, name |-> "v1"]
SigV2 == [fixed |-> 2, variadic |-> TRUE, method |-> FALSE, result |-> TRUE, name |-> "v2"]
SigM1 == [fixed |-> 1, variadic |-> FALSE, method |-> TRUE, result |-> TRUE, name |-> "m1"]
SigMV == [fixed |-> 1, variadic |-> TRUE, method |-> TRUE, result |-> TRUE, name |-> "mv"]
SigN1 == [fixed |-> 1, variadic |-> FALSE, method |-> FALSE, result |-> FALSE, name |-> "n1"]
====
