---- MODULE MC_ArgAlgebra ----
EXTENDS ArgAlgebra
CONSTANT C
VARIABLE x
Init == x = 0
Next == UNCHANGED x
Spec == Init /\ [][Next]_x
Symmetric == \A a, b \in C : EqualsOp(a, b) = EqualsOp(b, a)
Reflexive == \A a \in C : EqualsOp(a, a)
InIsUnion == \A a, p, q \in C : InOp(<<p, q>>, a) = (EqualsOp(p, a) \/ EqualsOp(q, a))
InSingleton == \A a, p \in C : InOp(<<p>>, a) = EqualsOp(p, a)
AnyAll == \A a \in C : AnyOp(a)
====
